//! The shuttle explorer of C15 compiled against the INSTRUMENTED copy of espada (std sync / thread_local /
//! thread redirected to shuttle), so that scheduling points also exist inside calls wherever a change
//! introduced a lock, an atomic or a thread-local.
#![allow(dead_code)]
#[path = "/verif/harness/vlib/src/cards.rs"]
mod cards;
#[path = "/verif/harness/vlib/src/deals.rs"]
mod deals;
#[path = "/verif/harness/vlib/src/report.rs"]
mod report;
#[path = "/verif/harness/vlib/src/actors.rs"]
mod actors;

use actors::*;
use serde_json::{json, Value};
use shuttle::scheduler::DfsScheduler;
use shuttle::sync::Arc;
use shuttle::{thread, Config, Runner};
use std::sync::atomic::{AtomicUsize, Ordering};

include!("/verif/harness/sched/src/body.rs");
