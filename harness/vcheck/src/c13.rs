//! C13 (card/rank/suit encodings) and C14 (hole-card pair canonical form): complete enumerations.

use espada::card::{Card, Rank, RankRange, Suit, SuitRange};
use espada::hand_range::{CardPair, HandRange};
use fxhash::FxHasher;
use serde_json::{json, Value};
use std::collections::hash_map::DefaultHasher;
use std::hash::{Hash, Hasher};
use vlib::cards::*;
use vlib::report::{catch, Report, Violation};

fn v(rep: &mut Report, sub: &str, key: String, case: Value, expected: Value, observed: Value) {
    rep.violation(Violation { key, sub: sub.into(), case, expected, observed });
}

fn res<T: std::fmt::Debug>(r: &Result<T, String>) -> Value {
    match r {
        Ok(x) => json!(format!("{:?}", x)),
        Err(e) => json!({"panic": e}),
    }
}

pub fn run_c13(tier: &str) -> i32 {
    let mut rep = Report::new("C13", tier);
    let all = all_cards();

    // 1. card <-> u64
    let mut bits = vec![];
    for i in 0..52u8 {
        let c = all[i as usize];
        let r = catch(move || (u64::from(c), u64::from(&c)));
        let ok = match &r {
            Ok((a, b)) => a == b && a.count_ones() == 1 && *a < (1u64 << 52),
            Err(_) => false,
        };
        if !ok {
            v(&mut rep, "card-u64", format!("card={} to u64", card_text(i)), json!({"card": card_text(i)}), json!("one bit among the low 52, same by value and by reference"), res(&r));
            continue;
        }
        let b = r.unwrap().0;
        if let Some(j) = bits.iter().position(|x| *x == b) {
            v(&mut rep, "card-u64", format!("card={} bit shared", card_text(i)), json!({"card": card_text(i)}), json!("distinct bit"), json!({"bit": b, "shared_with": card_text(j as u8)}));
        }
        bits.push(b);
        let back = catch(move || (Card::from(b), Card::from(&b)));
        if back.as_ref().ok() != Some(&(c, c)) {
            v(&mut rep, "card-u64", format!("card={} from u64", card_text(i)), json!({"card": card_text(i), "bit": b}), json!(card_text(i)), res(&back));
        }
    }
    for k in 0..52u32 {
        let w = 1u64 << k;
        let r = catch(move || {
            let c = Card::from(w);
            (u64::from(c), c)
        });
        if r.as_ref().ok().map(|x| x.0) != Some(w) {
            v(&mut rep, "u64-card", format!("word=1<<{}", k), json!({"word": w}), json!("Card::from(word) converts back to the same word"), res(&r));
        }
    }
    rep.sub("card-u64", "all 52 cards -> u64 (by value, by reference) -> card; all 52 low single-bit words -> card -> word", 52 * 3 + 52, 52, true, json!({}));
    rep.sample(json!({"card": "As", "bit": u64::from(all[0])}));

    // 2./3. texts
    let mut accepted = 0u64;
    let mut n_strings = 0u64;
    for i in 0..52u8 {
        let c = all[i as usize];
        let t = catch(move || c.to_string());
        if t.as_ref().ok() != Some(&card_text(i)) {
            v(&mut rep, "card-text", format!("card={} to_string", card_text(i)), json!({"card": i}), json!(card_text(i)), res(&t));
        }
    }
    let mut try_ascii = |s: String, rep: &mut Report| {
        n_strings += 1;
        let expect: Option<Card> = (0..52u8).find(|&i| card_text(i) == s).map(|i| all[i as usize]);
        let s2 = s.clone();
        let r = catch(move || s2.parse::<Card>().ok());
        if r.as_ref().ok() != Some(&expect) {
            v(rep, "ascii-strings", format!("card text {:?}", s), json!({"text": s}), json!(format!("{:?}", expect)), res(&r));
        }
        if let Ok(Some(_)) = r {
            accepted += 1;
        }
    };
    for a in 0..128u8 {
        try_ascii((a as char).to_string(), &mut rep);
        for b in 0..128u8 {
            let mut s = String::new();
            s.push(a as char);
            s.push(b as char);
            try_ascii(s, &mut rep);
        }
    }
    rep.sub("ascii-strings", "all 128 one-character and 16,384 two-character ASCII strings parsed as Card: accepted exactly when the text is one of the 52 card texts, and then equal to that card; all 52 cards format to their text", n_strings + 52, accepted, true, json!({"accepted": accepted}));
    rep.sample(json!({"text": "2c", "parses_to": format!("{:?}", "2c".parse::<Card>().ok())}));

    // 4. rank / suit codes, order, next/prev, char
    let mut n = 0u64;
    for i in 0..13usize {
        let r = RANKS[i];
        n += 1;
        let got = catch(move || (u8::from(r), u8::from(&r), char::from(r), char::from(&r), r.to_string(), r.next(), r.prev()));
        let exp = (
            i as u8,
            i as u8,
            RANK_CHARS[i],
            RANK_CHARS[i],
            RANK_CHARS[i].to_string(),
            if i < 12 { Some(RANKS[i + 1]) } else { None },
            if i > 0 { Some(RANKS[i - 1]) } else { None },
        );
        if got.as_ref().ok() != Some(&exp) {
            v(&mut rep, "rank-codes", format!("rank={}", RANK_CHARS[i]), json!({"rank": i}), json!(format!("{:?}", exp)), res(&got));
        }
        for j in 0..13usize {
            let s = RANKS[j];
            n += 1;
            let ok = (r < s) == (i < j) && r.cmp(&s) == i.cmp(&j) && (r == s) == (i == j) && r.partial_cmp(&s) == Some(i.cmp(&j));
            if !ok {
                v(&mut rep, "rank-codes", format!("rank order {} vs {}", RANK_CHARS[i], RANK_CHARS[j]), json!({"a": i, "b": j}), json!(format!("{:?}", i.cmp(&j))), json!(format!("{:?}", r.cmp(&s))));
            }
        }
    }
    for i in 0..4usize {
        let s = SUITS[i];
        n += 1;
        let got = catch(move || (u8::from(s), u8::from(&s), char::from(s), char::from(&s), s.to_string()));
        let exp = (i as u8, i as u8, SUIT_CHARS[i], SUIT_CHARS[i], SUIT_CHARS[i].to_string());
        if got.as_ref().ok() != Some(&exp) {
            v(&mut rep, "suit-codes", format!("suit={}", SUIT_CHARS[i]), json!({"suit": i}), json!(format!("{:?}", exp)), res(&got));
        }
        for j in 0..4usize {
            let t = SUITS[j];
            n += 1;
            let ok = (s < t) == (i < j) && s.cmp(&t) == i.cmp(&j) && (s == t) == (i == j);
            if !ok {
                v(&mut rep, "suit-codes", format!("suit order {} vs {}", SUIT_CHARS[i], SUIT_CHARS[j]), json!({"a": i, "b": j}), json!(format!("{:?}", i.cmp(&j))), json!(format!("{:?}", s.cmp(&t))));
            }
        }
    }
    // card order = index order; rank()/suit() accessors
    for i in 0..52usize {
        let c = all[i];
        if *c.rank() != RANKS[i / 4] || *c.suit() != SUITS[i % 4] {
            v(&mut rep, "card-order", format!("card={} accessors", card_text(i as u8)), json!({"card": i}), json!("rank()/suit() of Card::new(rank, suit)"), json!(format!("{:?}", c)));
        }
        for j in 0..52usize {
            n += 1;
            let d = all[j];
            if c.cmp(&d) != i.cmp(&j) || (c < d) != (i < j) || (c == d) != (i == j) {
                v(&mut rep, "card-order", format!("card order {} vs {}", card_text(i as u8), card_text(j as u8)), json!({"a": i, "b": j}), json!(format!("{:?}", i.cmp(&j))), json!(format!("{:?}", c.cmp(&d))));
            }
        }
    }
    rep.sub("codes-and-order", "13 ranks and 4 suits: u8 code = position (ace..deuce, s h d c), char/Display, next/prev = +-1 with None at the ends; all ordered pairs of ranks, of suits and of the 52 cards compare like their positions", n, 13 + 4 + 52, true, json!({}));

    // every Unicode scalar value as a rank / suit char
    let mut scalars = 0u64;
    let mut acc_r = 0u64;
    let mut acc_s = 0u64;
    for u in 0..=0x10FFFFu32 {
        if let Some(ch) = char::from_u32(u) {
            scalars += 1;
            let er: Option<Rank> = RANK_CHARS.iter().position(|c| *c == ch).map(|p| RANKS[p]);
            let es: Option<Suit> = SUIT_CHARS.iter().position(|c| *c == ch).map(|p| SUITS[p]);
            let gr = catch(move || (Rank::try_from(ch).ok(), Rank::try_from(&ch).ok()));
            let gs = catch(move || (Suit::try_from(ch).ok(), Suit::try_from(&ch).ok()));
            if gr.as_ref().ok() != Some(&(er, er)) {
                v(&mut rep, "char-scalars", format!("rank char U+{:04X}", u), json!({"char": u}), json!(format!("{:?}", er)), res(&gr));
            }
            if gs.as_ref().ok() != Some(&(es, es)) {
                v(&mut rep, "char-scalars", format!("suit char U+{:04X}", u), json!({"char": u}), json!(format!("{:?}", es)), res(&gs));
            }
            if let Ok((Some(_), _)) = gr {
                acc_r += 1;
            }
            if let Ok((Some(_), _)) = gs {
                acc_s += 1;
            }
        }
    }
    rep.sub("char-scalars", "every Unicode scalar value through TryFrom<char> and TryFrom<&char> for Rank and Suit: accepted exactly for the 13 / 4 notation characters, with the right value", scalars * 4, acc_r + acc_s, true, json!({"scalars": scalars, "accepted_rank": acc_r, "accepted_suit": acc_s}));

    // 5. ranges
    let mut nr = 0u64;
    for a in 0..13usize {
        for b in a..13usize {
            nr += 2;
            let (ra, rb) = (RANKS[a], RANKS[b]);
            let g1 = catch(move || RankRange::new(ra, rb).into_iter().collect::<Vec<_>>());
            let e1: Vec<Rank> = (a..b).map(|i| RANKS[i]).collect();
            if g1.as_ref().ok() != Some(&e1) {
                v(&mut rep, "rank-range", format!("RankRange::new({},{})", RANK_CHARS[a], RANK_CHARS[b]), json!({"a": a, "b": b}), json!(format!("{:?}", e1)), res(&g1));
            }
            let g2 = catch(move || RankRange::inclusive(ra, rb).into_iter().collect::<Vec<_>>());
            let e2: Vec<Rank> = (a..=b).map(|i| RANKS[i]).collect();
            if g2.as_ref().ok() != Some(&e2) {
                v(&mut rep, "rank-range", format!("RankRange::inclusive({},{})", RANK_CHARS[a], RANK_CHARS[b]), json!({"a": a, "b": b}), json!(format!("{:?}", e2)), res(&g2));
            }
        }
    }
    for a in 0..4usize {
        for b in a..4usize {
            nr += 2;
            let (sa, sb) = (SUITS[a], SUITS[b]);
            let g1 = catch(move || SuitRange::new(sa, sb).into_iter().collect::<Vec<_>>());
            let e1: Vec<Suit> = (a..b).map(|i| SUITS[i]).collect();
            if g1.as_ref().ok() != Some(&e1) {
                v(&mut rep, "suit-range", format!("SuitRange::new({},{})", SUIT_CHARS[a], SUIT_CHARS[b]), json!({"a": a, "b": b}), json!(format!("{:?}", e1)), res(&g1));
            }
            let g2 = catch(move || SuitRange::inclusive(sa, sb).into_iter().collect::<Vec<_>>());
            let e2: Vec<Suit> = (a..=b).map(|i| SUITS[i]).collect();
            if g2.as_ref().ok() != Some(&e2) {
                v(&mut rep, "suit-range", format!("SuitRange::inclusive({},{})", SUIT_CHARS[a], SUIT_CHARS[b]), json!({"a": a, "b": b}), json!(format!("{:?}", e2)), res(&g2));
            }
        }
    }
    let ga = catch(|| (RankRange::all().into_iter().collect::<Vec<_>>(), SuitRange::all().into_iter().collect::<Vec<_>>()));
    nr += 2;
    if ga.as_ref().ok() != Some(&(RANKS.to_vec(), SUITS.to_vec())) {
        v(&mut rep, "rank-range", "all()".into(), json!({}), json!("ace..deuce / s h d c"), res(&ga));
    }
    rep.sub("ranges", "RankRange::new/inclusive for all 91 endpoint pairs a<=b, SuitRange for all 10, and all(): exactly the codes in [a,b) / [a,b], ascending", nr, 91 + 10 + 2, true, json!({}));
    // 5b. the range iterators under every consumption protocol
    {
        let mut np = 0u64;
        for a in 0..13usize {
            for b in a..13usize {
                let (ra, rb) = (RANKS[a], RANKS[b]);
                for incl in [false, true] {
                    np += 1;
                    let r = catch(move || vlib::iterproto::check(|| if incl { RankRange::inclusive(ra, rb).into_iter() } else { RankRange::new(ra, rb).into_iter() }, 4));
                    if !matches!(r, Ok(None)) {
                        v(&mut rep, "range-protocol", format!("RankRange::{}({},{}) consumed as an iterator", if incl { "inclusive" } else { "new" }, RANK_CHARS[a], RANK_CHARS[b]), json!({"a": a, "b": b, "inclusive": incl}), json!("every way of consuming the iterator agrees with plain forward iteration"), res(&r));
                    }
                }
            }
        }
        for a in 0..4usize {
            for b in a..4usize {
                let (sa, sb) = (SUITS[a], SUITS[b]);
                for incl in [false, true] {
                    np += 1;
                    let r = catch(move || vlib::iterproto::check(|| if incl { SuitRange::inclusive(sa, sb).into_iter() } else { SuitRange::new(sa, sb).into_iter() }, 4));
                    if !matches!(r, Ok(None)) {
                        v(&mut rep, "range-protocol", format!("SuitRange::{}({},{}) consumed as an iterator", if incl { "inclusive" } else { "new" }, SUIT_CHARS[a], SUIT_CHARS[b]), json!({"a": a, "b": b, "inclusive": incl}), json!("every way of consuming the iterator agrees with plain forward iteration"), res(&r));
                    }
                }
            }
        }
        // the order-based consumers (max, min, by_ref().max(), rev().min(), max_by_key, is position order): a range
        // enumerates the run between its endpoints in the order that comparison follows
        for a in 0..13usize {
            for b in a..13usize {
                let (ra, rb) = (RANKS[a], RANKS[b]);
                np += 1;
                let r = catch(move || {
                    let mk = || RankRange::inclusive(ra, rb).into_iter();
                    let base: Vec<Rank> = mk().collect();
                    let mut problems: Vec<String> = vec![];
                    if mk().max() != base.iter().cloned().max() || mk().min() != base.iter().cloned().min() {
                        problems.push(format!("max()/min() = {:?}/{:?}, the ranks yielded have {:?}/{:?}", mk().max(), mk().min(), base.iter().max(), base.iter().min()));
                    }
                    if mk().rev().max() != base.iter().cloned().max() || mk().rev().min() != base.iter().cloned().min() || mk().by_ref().max() != base.iter().cloned().max() {
                        problems.push("rev().max() / rev().min() / by_ref().max() differ from the maximum / minimum of the ranks yielded".into());
                    }
                    if mk().max_by_key(|r| u8::from(*r)) != base.iter().cloned().max_by_key(|r| u8::from(*r)) || mk().min_by_key(|r| u8::from(*r)) != base.iter().cloned().min_by_key(|r| u8::from(*r)) {
                        problems.push("max_by_key / min_by_key over the codes differ".into());
                    }
                    if !base.windows(2).all(|w| w[0] < w[1]) {
                        problems.push("the ranks are not yielded in increasing order".into());
                    }
                    if mk().map(|r| u8::from(r) as u32).sum::<u32>() != base.iter().map(|r| u8::from(*r) as u32).sum::<u32>() || mk().fold(0usize, |acc, _| acc + 1) != base.len() {
                        problems.push("sum / fold over the iterator differ from the ranks yielded".into());
                    }
                    problems
                });
                if r.as_ref().map(|p| !p.is_empty()).unwrap_or(true) {
                    v(&mut rep, "range-protocol", format!("RankRange::inclusive({},{}) through the order-based consumers", RANK_CHARS[a], RANK_CHARS[b]), json!({"a": a, "b": b}), json!("max, min, rev().max(), by_ref().max(), max_by_key, sum and fold agree with the ranks next() yields"), res(&r));
                }
            }
        }
        rep.sub("range-protocol", "the iterators of RankRange / SuitRange new and inclusive for all endpoint pairs: all front/back pull sequences of length <= 4 then drained either way, rev(), nth/nth_back for every k, count(), last(), len()/size_hint() before every pull agree with plain forward iteration; max, min, rev().max(), by_ref().max(), max_by_key, sum, fold of every inclusive rank range agree with the ranks next() yields", np, np, true, json!({}));
    }

    // 6. every route to the order: operators, Ord::cmp, partial_cmp, min/max/clamp, sort, BTreeSet, binary_search
    {
        fn routes<T: Ord + Copy + std::fmt::Debug>(items: &[T]) -> Vec<String> {
            let n = items.len();
            let mut problems = vec![];
            for i in 0..n {
                for j in 0..n {
                    let (a, b) = (items[i], items[j]);
                    let want = i.cmp(&j);
                    if a.cmp(&b) != want || a.partial_cmp(&b) != Some(want) || (a < b) != (i < j) || (a <= b) != (i <= j) || (a > b) != (i > j) || (a >= b) != (i >= j) || (a == b) != (i == j) || (a != b) != (i != j) {
                        problems.push(format!("{:?} vs {:?}: cmp {:?}, partial_cmp {:?}, < {}, == {}; positions compare {:?}", a, b, a.cmp(&b), a.partial_cmp(&b), a < b, a == b, want));
                    }
                    if a.max(b) != items[i.max(j)] || a.min(b) != items[i.min(j)] || std::cmp::max(a, b) != items[i.max(j)] || std::cmp::min(a, b) != items[i.min(j)] {
                        problems.push(format!("max/min of {:?} and {:?}", a, b));
                    }
                    if i <= j {
                        for k in 0..n {
                            if items[k].clamp(a, b) != items[k.clamp(i, j)] {
                                problems.push(format!("{:?}.clamp({:?}, {:?})", items[k], a, b));
                            }
                        }
                    }
                }
            }
            // sorting a scrambled copy by every route gives position order
            let scrambled: Vec<T> = (0..n).map(|i| items[(i * 7 + 3) % n]).collect();
            let mut s1 = scrambled.clone();
            s1.sort();
            let mut s2 = scrambled.clone();
            s2.sort_unstable();
            let mut s3 = scrambled.clone();
            s3.sort_by(|a, b| a.cmp(b));
            let mut s4 = scrambled.clone();
            s4.sort_by(|a, b| a.partial_cmp(b).unwrap());
            let mut s5 = scrambled.clone();
            s5.sort_by_key(|a| *a);
            for (name, sorted) in [("sort", &s1), ("sort_unstable", &s2), ("sort_by(cmp)", &s3), ("sort_by(partial_cmp)", &s4), ("sort_by_key", &s5)] {
                if sorted[..] != items[..] {
                    problems.push(format!("{}() of a scrambled list is not position order", name));
                }
            }
            let mut set = std::collections::BTreeSet::new();
            for x in &scrambled {
                set.insert(*x);
            }
            if set.len() != n || set.iter().cloned().collect::<Vec<T>>()[..] != items[..] {
                problems.push(format!("a BTreeSet filled one by one holds {} of the {} values, or not in position order", set.len(), n));
            }
            let set2: std::collections::BTreeSet<T> = scrambled.iter().cloned().collect();
            if set2.len() != n {
                problems.push(format!("a collected BTreeSet holds {} of the {} values", set2.len(), n));
            }
            let mut map = std::collections::BTreeMap::new();
            for (i, x) in items.iter().enumerate() {
                map.insert(*x, i);
            }
            for (i, x) in items.iter().enumerate() {
                if items.binary_search(x) != Ok(i) || map.get(x) != Some(&i) {
                    problems.push(format!("binary_search / BTreeMap lookup of {:?}", x));
                }
            }
            if items.iter().max() != items.last() || items.iter().min() != items.first() {
                problems.push("Iterator::max / min".into());
            }
            if !items.windows(2).all(|w| w[0] < w[1]) {
                problems.push("the position order is not strictly increasing".into());
            }
            problems
        }
        let cards: Vec<Card> = all.to_vec();
        let mut n6 = 0u64;
        for (what, problems) in [("cards", catch(move || routes(&cards))), ("ranks", catch(|| routes(&RANKS))), ("suits", catch(|| routes(&SUITS)))] {
            n6 += 1;
            match problems {
                Ok(p) if p.is_empty() => {}
                Ok(p) => v(&mut rep, "order-routes", format!("order of {}", what), json!({"what": what}), json!("every route to the order agrees with the positions (ace..deuce, s h d c; cards by rank then suit)"), json!(p.iter().take(5).collect::<Vec<_>>())),
                Err(e) => v(&mut rep, "order-routes", format!("order of {}", what), json!({"what": what}), json!("no panic"), json!({"panic": e})),
            }
        }
        rep.sub("order-routes", "cards, ranks and suits: all ordered pairs through ==, !=, <, <=, >, >=, Ord::cmp, partial_cmp, max/min (method and function), all clamp triples, five sort routes on a scrambled list, BTreeSet filled one by one and collected, BTreeMap and binary_search lookups, Iterator::max/min: all agree with the positions", n6, n6, true, json!({}));
    }

    // 7. the text under format specifications: padding may be honoured or ignored, but the card's own two characters stay together
    {
        fn specs(x: &dyn std::fmt::Display) -> Vec<(&'static str, String)> {
            vec![("{}", format!("{}", x)), ("{:1}", format!("{:1}", x)), ("{:2}", format!("{:2}", x)), ("{:4}", format!("{:4}", x)), ("{:<5}", format!("{:<5}", x)), ("{:>5}", format!("{:>5}", x)), ("{:^6}", format!("{:^6}", x)), ("{:-<7}", format!("{:-<7}", x)), ("{:*>3}", format!("{:*>3}", x)), ("{:#}", format!("{:#}", x)), ("{:+}", format!("{:+}", x)), ("{:9.9}", format!("{:9.9}", x))]
        }
        let mut n7 = 0u64;
        let mut check = |rep: &mut Report, what: String, text: String, got: Result<Vec<(&'static str, String)>, String>| {
            n7 += 1;
            match got {
                Err(e) => v(rep, "format-specs", what, json!({}), json!("no panic"), json!({"panic": e})),
                Ok(list) => {
                    for (spec, out) in list {
                        let core = out.trim_matches(|c: char| c == ' ' || c == '-' || c == '*');
                        if core != text {
                            v(rep, "format-specs", format!("{} formatted with {}", what, spec), json!({"spec": spec}), json!(format!("{:?}, possibly padded", text)), json!(out));
                        }
                    }
                }
            }
        };
        for i in 0..52u8 {
            let c = all[i as usize];
            check(&mut rep, format!("card={}", card_text(i)), card_text(i), catch(move || specs(&c)));
        }
        for i in 0..13usize {
            let r = RANKS[i];
            check(&mut rep, format!("rank={}", RANK_CHARS[i]), RANK_CHARS[i].to_string(), catch(move || specs(&r)));
        }
        for i in 0..4usize {
            let su = SUITS[i];
            check(&mut rep, format!("suit={}", SUIT_CHARS[i]), SUIT_CHARS[i].to_string(), catch(move || specs(&su)));
        }
        rep.sub("format-specs", "the Display text of all 52 cards, 13 ranks and 4 suits under twelve format specifications (widths, alignments, fills, flags, a generous precision): padding may be honoured or ignored, but with the fill characters trimmed the text is the card's / rank's / suit's own", n7, n7, true, json!({}));
    }
    rep.bound("reversed range endpoints (a > b) are not 'a contiguous run between its endpoints' and are not judged here; the user-reachable route to them is C09's");
    rep.sample(json!({"range": "RankRange::inclusive(K,T)", "yields": format!("{:?}", RankRange::inclusive(Rank::King, Rank::Ten).into_iter().collect::<Vec<_>>())}));
    rep.finish()
}

fn h_default<T: Hash>(t: &T) -> u64 {
    let mut h = DefaultHasher::new();
    t.hash(&mut h);
    h.finish()
}
fn h_fx<T: Hash>(t: &T) -> u64 {
    let mut h = FxHasher::default();
    t.hash(&mut h);
    h.finish()
}

pub fn run_c14(tier: &str) -> i32 {
    let mut rep = Report::new("C14", tier);
    let all = all_cards();
    let mut n = 0u64;
    let mut distinct = std::collections::BTreeSet::new();
    for a in 0..52u8 {
        for b in 0..52u8 {
            if a == b {
                continue;
            }
            n += 1;
            let (ca, cb) = (all[a as usize], all[b as usize]);
            let key = format!("pair={}{}", card_text(a), card_text(b));
            let r = catch(move || {
                let p = CardPair::new(ca, cb);
                let q = CardPair::new(cb, ca);
                // "the card that orders first": by position in the deck order (rank, then suit), not by asking the library
                let first = if a < b { ca } else { cb };
                let second = if a < b { cb } else { ca };
                let mut problems: Vec<String> = vec![];
                if p != q {
                    problems.push("new(a,b) != new(b,a)".into());
                }
                if h_default(&p) != h_default(&q) {
                    problems.push("DefaultHasher hashes differ".into());
                }
                if h_fx(&p) != h_fx(&q) {
                    problems.push("FxHasher hashes differ".into());
                }
                if !(p[0] < p[1]) || p[0] != first || p[1] != second {
                    problems.push(format!("elements are {:?},{:?}; expected the card that orders first, then the other", p[0], p[1]));
                }
                let text = p.to_string();
                let expect_text = format!("{}{}", first, second);
                if text != expect_text {
                    problems.push(format!("to_string {:?} != {:?}", text, expect_text));
                }
                match text.parse::<CardPair>() {
                    Ok(back) if back == p => {}
                    other => problems.push(format!("to_string().parse() = {:?}", other.map(|x| x.to_string()).map_err(|_| "Err"))),
                }
                let t_ab = format!("{}{}", ca, cb);
                let t_ba = format!("{}{}", cb, ca);
                match (t_ab.parse::<CardPair>(), t_ba.parse::<CardPair>()) {
                    (Ok(x), Ok(y)) if x == y && x == p => {
                        // equal values must be indistinguishable: same hashes, same elements
                        for (v, t) in [(x, &t_ab), (y, &t_ba)] {
                            if h_default(&v) != h_default(&p) || h_fx(&v) != h_fx(&p) {
                                problems.push(format!("pair parsed from {:?} equals new(a,b) but hashes differently", t));
                            }
                            if v[0] != first || v[1] != second {
                                problems.push(format!("pair parsed from {:?} has elements {:?},{:?}", t, v[0], v[1]));
                            }
                            if v.to_string() != expect_text {
                                problems.push(format!("pair parsed from {:?} prints {:?}", t, v.to_string()));
                            }
                        }
                    }
                    _ => problems.push(format!("texts {:?} / {:?} do not parse to the same pair", t_ab, t_ba)),
                }
                problems
            });
            match r {
                Ok(p) if p.is_empty() => {
                    distinct.insert(Combo::new(a, b));
                }
                Ok(p) => v(&mut rep, "pairs", key, json!({"a": a, "b": b}), json!("canonical unordered pair"), json!(p)),
                Err(e) => v(&mut rep, "pairs", key, json!({"a": a, "b": b}), json!("returns normally"), json!({"panic": e})),
            }
        }
    }
    rep.sub("pairs", "all 52x51 ordered pairs of distinct cards: equality, DefaultHasher and FxHasher hashes of both orders, element order, text round trip, both text orders", n, distinct.len() as u64, true, json!({}));
    // range keyed by pairs can never hold the same combo twice
    let r = catch(move || {
        let mut items = vec![];
        for a in 0..52u8 {
            for b in 0..52u8 {
                if a != b {
                    items.push((CardPair::new(all[a as usize], all[b as usize]), 1.0f32));
                }
            }
        }
        let range: HandRange = items.into_iter().collect();
        range.card_pairs().len()
    });
    if r.as_ref().ok() != Some(&1326) {
        v(&mut rep, "range-keys", "range of all ordered pairs".into(), json!({}), json!(1326), res(&r));
    }
    let r2 = catch(move || {
        let mut texts = vec![];
        for a in 0..52u8 {
            for b in 0..52u8 {
                if a != b {
                    texts.push(format!("{}{}", card_text(a), card_text(b)));
                }
            }
        }
        let range: HandRange = texts.join(",").parse().unwrap();
        let looked_up = (0..52u8).flat_map(|a| (0..52u8).filter(move |b| *b != a).map(move |b| (a, b))).filter(|(a, b)| range.card_pairs().contains_key(&CardPair::new(all[*a as usize], all[*b as usize]))).count();
        (range.card_pairs().len(), looked_up)
    });
    if r2.as_ref().ok() != Some(&(1326, 2652)) {
        v(&mut rep, "range-keys", "range parsed from all ordered pair texts".into(), json!({}), json!([1326, 2652]), res(&r2));
    }
    rep.sub("range-keys", "a HandRange collected from all 2,652 ordered pairs, and one parsed from all 2,652 ordered pair texts, hold exactly 1,326 keys, each found by looking up new(a,b) in either order", 2652 * 2, 1326, true, json!({}));
    // every pair value the library itself hands out is in canonical form: rank-pair expansion (the enum is
    // public, either rank order), token expansion (either spelling), keys of parsed ranges
    {
        use espada::hand_range::{HandRangeToken, RankPair};
        let mut n = 0u64;
        let mut problems: Vec<(String, String)> = vec![];
        let check_pairs = |what: String, pairs: Vec<CardPair>, expect_len: Option<usize>, problems: &mut Vec<(String, String)>| {
            let mut seen = std::collections::BTreeSet::new();
            for cp in &pairs {
                let canon = CardPair::new(cp[0], cp[1]);
                if !(cp[0] < cp[1]) || *cp != canon || h_default(cp) != h_default(&canon) {
                    problems.push((what.clone(), format!("hands out the pair ({:?},{:?}) which is not in canonical form", cp[0], cp[1])));
                    return;
                }
                seen.insert(Combo::of(cp));
            }
            if seen.len() != pairs.len() {
                problems.push((what.clone(), "hands out the same combo twice".into()));
            }
            if let Some(l) = expect_len {
                if pairs.len() != l {
                    problems.push((what, format!("hands out {} pairs, expected {}", pairs.len(), l)));
                }
            }
        };
        for a in 0..13usize {
            n += 1;
            let r = catch(move || RankPair::Pocket(RANKS[a]).into_iter().collect::<Vec<_>>());
            match r {
                Ok(v) => check_pairs(format!("RankPair::Pocket({})", RANK_CHARS[a]), v, Some(6), &mut problems),
                Err(e) => problems.push((format!("RankPair::Pocket({})", RANK_CHARS[a]), format!("panic: {}", e))),
            }
            for b in 0..13usize {
                if a == b {
                    continue;
                }
                for suited in [true, false] {
                    n += 1;
                    let what = format!("RankPair::{}({},{})", if suited { "Suited" } else { "Ofsuit" }, RANK_CHARS[a], RANK_CHARS[b]);
                    let r = catch(move || if suited { RankPair::Suited(RANKS[a], RANKS[b]) } else { RankPair::Ofsuit(RANKS[a], RANKS[b]) }.into_iter().collect::<Vec<_>>());
                    match r {
                        Ok(v) => check_pairs(what, v, Some(if suited { 4 } else { 12 }), &mut problems),
                        Err(e) => problems.push((what, format!("panic: {}", e))),
                    }
                    // the same through the notation, either spelling
                    let text = format!("{}{}{}", RANK_CHARS[a], RANK_CHARS[b], if suited { "s" } else { "o" });
                    n += 1;
                    let t2 = text.clone();
                    let r = catch(move || t2.parse::<HandRangeToken>().ok().map(|t| t.into_iter().map(|(cp, _)| cp).collect::<Vec<_>>()));
                    if let Ok(Some(v)) = r {
                        check_pairs(format!("token {}", text), v, None, &mut problems);
                    }
                    let both = format!("{},{}{}{}", text, RANK_CHARS[b], RANK_CHARS[a], if suited { "s" } else { "o" });
                    let b2 = both.clone();
                    let r = catch(move || b2.parse::<HandRange>().ok().map(|r| r.card_pairs().keys().cloned().collect::<Vec<_>>()));
                    if let Ok(Some(v)) = r {
                        let l = v.len();
                        check_pairs(format!("range {}", both), v, None, &mut problems);
                        if l != 0 && l != if suited { 4 } else { 12 } {
                            problems.push((format!("range {}", both), format!("holds {} keys for one rank pair spelled both ways", l)));
                        }
                    }
                }
            }
        }
        for (what, p) in problems {
            v(&mut rep, "handed-out-pairs", what.clone(), json!({"source": what}), json!("canonical pairs, each combo once"), json!(p));
        }
        rep.sub("handed-out-pairs", "every CardPair the library hands out: RankPair::into_iter for all 13 + 156 + 156 enum values (either rank order), the expansion of every single rank-pair token in either spelling, and the keys of a range holding one rank pair spelled both ways: first element orders first, equal to new(a,b), no combo twice", n, 13 + 312, true, json!({}));
    }
    // parse histories on one thread: every valid pair text, each preceded by three texts the parser refuses (from a
    // rotating list of 300 distinct ones: junk characters, one card, the same card twice, three cards), and then all
    // valid texts again in reverse: refusals before it must not change what a valid text parses to
    {
        let mut junk: Vec<String> = vec![];
        for i in 0..100usize {
            // 100 distinct two-character texts that are not cards ("g0" .. "p9"), before and after a real card
            let not_a_card = format!("{}{}", (b'g' + (i / 10) as u8) as char, i % 10);
            if i % 2 == 0 {
                junk.push(format!("{}{}", not_a_card, card_text((i % 52) as u8)));
            } else {
                junk.push(format!("{}{}", card_text((i % 52) as u8), not_a_card));
            }
            junk.push(format!("{}{}", card_text((i % 52) as u8), card_text((i % 52) as u8)));
            junk.push(format!("{}{}{}", card_text((i % 52) as u8), card_text(((i + 1) % 52) as u8), ["Z", "s", "9", "hh"][i % 4]));
        }
        let mut texts: Vec<(u8, u8)> = vec![];
        for a in 0..52u8 {
            for b in 0..52u8 {
                if a != b {
                    texts.push((a, b));
                }
            }
        }
        let all2 = all;
        let outcome = std::thread::scope(|sc| {
            sc.spawn(|| {
                let mut bad: Vec<String> = vec![];
                let mut j = 0usize;
                let mut steps = 0u64;
                let order: Vec<usize> = (0..texts.len()).chain((0..texts.len()).rev()).collect();
                for &i in &order {
                    let (a, b) = texts[i];
                    for _ in 0..3 {
                        let t = junk[j % junk.len()].clone();
                        j += 1;
                        steps += 1;
                        let r = catch(move || t.parse::<CardPair>().is_ok());
                        if r != Ok(false) {
                            bad.push(format!("the refused text {:?} gives {:?}", junk[(j - 1) % junk.len()], r));
                        }
                    }
                    let text = format!("{}{}", card_text(a), card_text(b));
                    let want = CardPair::new(all2[a as usize], all2[b as usize]);
                    steps += 1;
                    let t2 = text.clone();
                    let r = catch(move || t2.parse::<CardPair>().ok());
                    if r != Ok(Some(want)) {
                        bad.push(format!("{:?} after {} parses on this thread gives {:?}", text, steps, r.map(|x| x.map(|p| p.to_string()))));
                    }
                    if bad.len() >= 4 {
                        break;
                    }
                }
                (bad, steps)
            })
            .join()
            .unwrap_or((vec!["the history thread died".into()], 0))
        });
        for b in outcome.0.iter().take(4) {
            v(&mut rep, "parse-histories", format!("pair text history: {}", b), json!({"history": b}), json!("a valid pair text parses to its pair whatever was parsed (or refused) before on the thread"), json!(b));
        }
        rep.sub("parse-histories", "one thread: all 2,652 valid pair texts, each preceded by three refused texts from a rotating list of 300, then all of them again in reverse order: every valid text parses to its pair, every refused one stays refused", outcome.1, outcome.1, false, json!({}));
    }
    // a valid pair text after exactly k refusals on a FRESH thread, for every k in 0..=130 (a per-thread table of texts
    // seen that overflows exactly while a valid text is being looked up): 4 first cards x all 51 second cards
    {
        let junk: Vec<String> = (0..131usize).map(|i| format!("{}{}As", (b'g' + (i / 10) as u8) as char, i % 10)).collect();
        let firsts = [0u8, 21, 38, 51];
        let mut jobs: Vec<(u8, u8)> = vec![];
        for a in firsts {
            for b in 0..52u8 {
                if a != b {
                    jobs.push((a, b));
                }
            }
        }
        let all2 = all;
        let outs = vlib::par::par_map(jobs.len(), |j| {
            let (a, b) = jobs[j];
            let text = format!("{}{}", card_text(a), card_text(b));
            let want = CardPair::new(all2[a as usize], all2[b as usize]);
            let mut bad: Vec<String> = vec![];
            for k in 0..=130usize {
                let (t, jk) = (text.clone(), &junk);
                let r = std::thread::scope(|sc| {
                    sc.spawn(move || {
                        catch(move || {
                            for x in jk.iter().take(k) {
                                let _ = x.parse::<CardPair>();
                            }
                            t.parse::<CardPair>().ok()
                        })
                    })
                    .join()
                    .unwrap_or(Err("thread died".into()))
                });
                if r != Ok(Some(want)) {
                    bad.push(format!("{:?} after {} refused texts on a fresh thread gives {:?}", text, k, r.map(|x| x.map(|p| p.to_string()))));
                    break;
                }
            }
            bad
        });
        let mut n = 0u64;
        for bad in outs {
            n += 131;
            for b in bad.iter().take(1) {
                v(&mut rep, "parse-histories", format!("pair text history: {}", b), json!({"history": b}), json!("a valid pair text parses to its pair after any number of refused texts"), json!(b));
            }
        }
        rep.sub("fresh-thread-histories", "for 4 first cards x all 51 second cards and every k in 0..=130: a fresh thread parses k distinct refused texts and then the valid text, which must parse to its pair", n, n, true, json!({}));
    }
    // the rank-pair expansion is an iterator: every way of consuming it hands out the same pairs
    {
        use espada::hand_range::RankPair;
        let mut rps: Vec<(String, RankPair)> = vec![];
        for h in 0..13usize {
            rps.push((format!("Pocket({})", RANK_CHARS[h]), RankPair::Pocket(RANKS[h])));
            for k in 0..13usize {
                if h != k {
                    rps.push((format!("Suited({},{})", RANK_CHARS[h], RANK_CHARS[k]), RankPair::Suited(RANKS[h], RANKS[k])));
                    rps.push((format!("Ofsuit({},{})", RANK_CHARS[h], RANK_CHARS[k]), RankPair::Ofsuit(RANKS[h], RANKS[k])));
                }
            }
        }
        let mut np = 0u64;
        for (name, rp) in &rps {
            np += 1;
            let rp = *rp;
            let r = catch(move || vlib::iterproto::check(|| rp.into_iter(), 4));
            if !matches!(r, Ok(None)) {
                v(&mut rep, "expansion-protocol", format!("RankPair::{} consumed as an iterator", name), json!({"rank_pair": name}), json!("every way of consuming the expansion agrees with plain forward iteration"), res(&r));
            }
        }
        rep.sub("expansion-protocol", "RankPair::into_iter for all 13 + 156 + 156 enum values (either rank order): all front/back pull sequences of length <= 4 then drained either way, rev(), nth/nth_back, count(), last(), len()/size_hint() agree with plain forward iteration", np, np, true, json!({}));
    }
    // the pair's text under format specifications: padding honoured or ignored, the four characters stay together
    {
        let mut nf = 0u64;
        for cb in all_combos() {
            nf += 1;
            let cp = cb.card_pair();
            let text = cb.text();
            let got = catch(move || vec![("{}", format!("{}", cp)), ("{:4}", format!("{:4}", cp)), ("{:8}", format!("{:8}", cp)), ("{:<6}", format!("{:<6}", cp)), ("{:>6}", format!("{:>6}", cp)), ("{:^7}", format!("{:^7}", cp)), ("{:*>9}", format!("{:*>9}", cp)), ("{:#}", format!("{:#}", cp)), ("{:9.9}", format!("{:9.9}", cp))]);
            match got {
                Err(e) => v(&mut rep, "format-specs", format!("pair={}", text), json!({}), json!("no panic"), json!({"panic": e})),
                Ok(list) => {
                    for (spec, out) in list {
                        let core = out.trim_matches(|c: char| c == ' ' || c == '*');
                        if core != text || core.parse::<CardPair>().ok() != Some(cp) {
                            v(&mut rep, "format-specs", format!("pair={} formatted with {}", text, spec), json!({"spec": spec}), json!(format!("{:?}, possibly padded, parsing back to the pair", text)), json!(out));
                        }
                    }
                }
            }
        }
        rep.sub("format-specs", "the Display text of all 1,326 pairs under nine format specifications: with the fill trimmed it is the pair's own four characters and parses back to the pair", nf, nf, true, json!({}));
    }
    rep.sample(json!({"new(Ks,As)": CardPair::new(all[4], all[0]).to_string(), "new(As,Ks)": CardPair::new(all[0], all[4]).to_string()}));
    rep.finish()
}
