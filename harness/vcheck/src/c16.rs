//! C16: the example's work splitter tiles the enumeration for every worker count.
//! The real `calculate_scopes` (compiled from the example's source file) is enumerated for
//! every n up to a bound; a transcription of its cut-point function, bound back to the code
//! on every enumerated (n, i), is enumerated over its entire f32 input space to widen the
//! claim to every n <= 2^24.

#[allow(dead_code)]
#[path = "/repo/examples/multi-thread/scope.rs"]
mod scope;

use espada::evaluator::FlopExhaustiveEvaluator;
use serde_json::{json, Value};
use vlib::cards::*;
use vlib::deals::*;
use vlib::par::par_map;
use vlib::report::{catch, Report, Violation};

fn card_idx(t: &str) -> u8 {
    let b = t.as_bytes();
    (RANK_CHARS.iter().position(|x| *x == b[0] as char).unwrap() * 4 + SUIT_CHARS.iter().position(|x| *x == b[1] as char).unwrap()) as u8
}

fn valid(t: u8, r: u8) -> bool {
    (t < r && r <= 48) || (t == 48 && r == 49)
}

/// first defect of the scope list for n, if any: (scope index, description)
fn check_list(n: u32, s: &[scope::CalculationScope]) -> Option<(usize, String)> {
    if s.len() != n as usize {
        return Some((0, format!("{} scopes for n = {}", s.len(), n)));
    }
    let mut prev = (0u8, 1u8);
    for (i, sc) in s.iter().enumerate() {
        let from = (sc.turn_from, sc.river_from);
        let to = (sc.turn_to, sc.river_to);
        if from != prev {
            return Some((i, format!("scope {} starts at {:?}, the previous one ended at {:?}", i, from, prev)));
        }
        if !valid(from.0, from.1) {
            return Some((i, format!("scope {} starts at {:?}, not a valid position", i, from)));
        }
        if !valid(to.0, to.1) {
            return Some((i, format!("scope {} ends at {:?}, not a valid position", i, to)));
        }
        if to < from {
            return Some((i, format!("scope {} steps backwards: {:?} -> {:?}", i, from, to)));
        }
        prev = to;
    }
    if prev != (48, 49) {
        return Some((s.len() - 1, format!("the last scope ends at {:?}, not (48,49)", prev)));
    }
    None
}

/// transcription of the cut point as a function of the f32 fraction (i+1)/n
fn g(f: f32) -> (u8, u8) {
    let x: f32 = 48.0 - 48.0 * (1.0 - f).sqrt();
    let turn_to = x.floor() as u8;
    let river_to = ((48 - turn_to) as f32 * (x % 1.0)).ceil() as u8 + turn_to + 1;
    normalise(turn_to, river_to)
}

/// the part of the transcription that follows the repaired code: a river index past the
/// last card means "first position of the next turn"
fn normalise(turn_to: u8, river_to: u8) -> (u8, u8) {
    if river_to > 48 && turn_to < 48 {
        (turn_to + 1, turn_to + 2)
    } else {
        (turn_to, river_to)
    }
}

pub fn run(tier: &str) -> i32 {
    let mut rep = Report::new("C16", tier);
    let thorough = tier == "thorough";
    let max_n: u32 = if thorough { 131_072 } else { 40_000 };
    // (1) direct enumeration of the real function + conformance of the transcription
    let chunk = 256u32;
    let nchunks = (max_n + chunk - 1) / chunk;
    let outs = par_map(nchunks as usize, |c| {
        let mut bad = vec![];
        let mut scopes_seen = 0u64;
        let mut unbound: Option<(u32, usize)> = None;
        let lo = c as u32 * chunk + 1;
        let hi = ((c as u32 + 1) * chunk).min(max_n);
        for n in lo..=hi {
            match catch(move || scope::calculate_scopes(n)) {
                Err(e) => bad.push((n, 0usize, format!("panic: {}", e))),
                Ok(s) => {
                    scopes_seen += s.len() as u64;
                    if let Some((i, d)) = check_list(n, &s) {
                        bad.push((n, i, d));
                    }
                    if unbound.is_none() {
                        for (i, sc) in s.iter().enumerate() {
                            let f = (i as f32 + 1.0) / n as f32;
                            if g(f) != (sc.turn_to, sc.river_to) {
                                unbound = Some((n, i));
                                break;
                            }
                        }
                    }
                }
            }
        }
        (bad, scopes_seen, unbound)
    });
    let mut scopes_seen = 0u64;
    let mut unbound: Option<(u32, usize)> = None;
    let mut bad_n = 0u64;
    for (bad, s, u) in outs {
        scopes_seen += s;
        if unbound.is_none() {
            unbound = u;
        }
        for (n, i, d) in bad {
            bad_n += 1;
            rep.violation(Violation { key: format!("n={} scope={}", n, i), sub: "direct".into(), case: json!({"n": n}), expected: json!("n scopes from (0,1) to (48,49), each starting where the previous ended, never backwards, valid positions only"), observed: json!(d) });
        }
    }
    rep.sub(
        "direct",
        "calculate_scopes(n) of the example's own source file for every n in 1..=N: count, start (0,1), end (48,49), contiguity, monotonicity, validity of every endpoint. evaluations = scopes produced, distinct_nontrivial = worker counts n",
        scopes_seen,
        max_n as u64,
        false,
        json!({"max_n": max_n, "worker_counts_with_a_defect": bad_n}),
    );
    // large worker counts, structured: around every power of two, every power of ten and a few products, where
    // f32 rounding of (i+1)/n changes character
    {
        let mut ns: Vec<u32> = vec![];
        let kmax = if thorough { 22 } else { 20 };
        let spread: i64 = if thorough { 32 } else { 6 };
        for k in 16..=kmax {
            for d in -spread..=spread {
                ns.push(((1i64 << k) + d) as u32);
            }
        }
        for base in [100_000u32, 250_000, 500_000, 1_000_000, 1_048_575, 1_234_567, 2_000_000, 3_000_000] {
            if base <= (1u32 << kmax) {
                for d in [0i64, 1, -1, 7] {
                    ns.push((base as i64 + d) as u32);
                }
            }
        }
        // a geometric ladder between the dense range and 2^24 (ratio 1.047 in quick, 1.0047 in thorough): sparse,
        // irregular failures in the millions cannot be enumerated, but every decade is sampled at regular ratios
        {
            let ratio: f64 = if thorough { 1.0047 } else { 1.047 };
            let mut x = max_n as f64 * 1.01;
            while x < (1u64 << 24) as f64 {
                ns.push(x as u32);
                x *= ratio;
            }
        }
        // beyond 2^24 an f32 cannot count workers one by one any more
        for huge in [1u32 << 21, 1 << 22, 1 << 23, (1 << 24) - 1, 1 << 24, (1 << 24) + 1, (1 << 24) + (1 << 16), 17_000_000, 20_000_000, 1 << 25] {
            ns.push(huge);
        }
        ns.retain(|n| *n > max_n);
        ns.sort();
        ns.dedup();
        let outs = par_map(ns.len(), |i| {
            let n = ns[i];
            match catch(move || scope::calculate_scopes(n)) {
                Err(e) => (Some((0usize, format!("panic: {}", e))), 0u64),
                Ok(s) => (check_list(n, &s), s.len() as u64),
            }
        });
        let mut seen = 0u64;
        for (i, (bad, k)) in outs.into_iter().enumerate() {
            seen += k;
            if let Some((sc, d)) = bad {
                rep.violation(Violation { key: format!("n={} scope={}", ns[i], sc), sub: "large-n".into(), case: json!({"n": ns[i]}), expected: json!("a valid tiling"), observed: json!(d) });
            }
        }
        rep.sub("large-n", "worker counts beyond the dense range: 2^k + d for k = 16..=20 (22 in thorough), |d| <= 6 (32), values around 10^5, 2.5*10^5, 5*10^5, 10^6, ..., a geometric ladder up to 2^24 (ratio 1.047 quick / 1.0047 thorough), and 2^21, 2^22, 2^23, 2^24 +- 1, 2^24 + 2^16, 1.7*10^7, 2*10^7, 2^25: the same list checks", seen, ns.len() as u64, false, json!({"worker_counts": ns.len(), "largest": ns.last()}));
    }
    rep.sample(json!({"n": 4, "scopes": scope::calculate_scopes(4).iter().map(|s| json!([[s.turn_from, s.river_from], [s.turn_to, s.river_to]])).collect::<Vec<_>>()}));
    rep.sample(json!({"n": 17, "scope_11": {"to": [scope::calculate_scopes(17)[11].turn_to, scope::calculate_scopes(17)[11].river_to]}}));

    // (2) through the real iterator
    let f = [8u8, 26, 49];
    let d = deck_without(&f);
    let cfgs = vec![
        Config { flop: f, ranges: vec![vec![(Combo::new(d[5], d[30]), 1.0)]], label: "one combo".into() },
        Config { flop: f, ranges: vec![vec![(Combo::new(d[0], d[48]), 0.5), (Combo::new(f[0], d[7]), 1.0)], vec![(Combo::new(d[0], d[20]), 1.0), (Combo::new(d[21], d[47]), 0.25)]], label: "2x2".into() },
    ];
    let max_it: u32 = if thorough { 512 } else { 64 };
    let mut it_runs = 0u64;
    for cfg in &cfgs {
        let model = model_run(cfg);
        let outs = par_map(max_it as usize, |k| {
            let n = k as u32 + 1;
            let scopes = match catch(move || scope::calculate_scopes(n)) {
                Ok(s) => s,
                Err(e) => return Some(json!({"panic": e})),
            };
            let mut all: Vec<Sd> = vec![];
            let mut calls = 0;
            for (i, s) in scopes.iter().enumerate() {
                // as a worker thread of the example would run it; a panic there is swallowed by join()
                match run_impl(cfg, Some((s.turn_from, s.river_from, s.turn_to, s.river_to)), 0, 1176 * 64) {
                    Ok(r) => {
                        calls += r.next_calls;
                        all.extend(r.showdowns);
                    }
                    Err(e) => return Some(json!({"scope": i, "worker_panics": e, "scope_value": [[s.turn_from, s.river_from], [s.turn_to, s.river_to]]})),
                }
            }
            let run = ImplRun { showdowns: all, next_calls: calls, stays_exhausted: true };
            compare(cfg, &model, &run, 0, 1176, true, true)
        });
        for (k, o) in outs.into_iter().enumerate() {
            it_runs += 1;
            if let Some(o) = o {
                rep.violation(Violation { key: format!("n={} through-iterator {}", k + 1, cfg.label), sub: "through-iterator".into(), case: json!({"n": k + 1, "config": cfg.to_json()}), expected: json!("the workers' yields concatenated equal the single-threaded enumeration"), observed: o });
            }
        }
    }
    rep.machine(it_runs * 1176, it_runs * 1176, it_runs);
    rep.sub("through-iterator", "for every n in 1..=M each scope of the list is run through FlopExhaustiveEvaluator::scope as a worker would, and the concatenation is compared per position with M-deals (two configurations)", it_runs, it_runs, false, json!({"max_n": max_it}));

    // (2b) the example binary itself, for every worker count this machine can present (CPU affinity k => k-1 workers)
    if let Ok(bin) = std::env::var("VERIF_EXAMPLE_BIN") {
        use espada::hand_range::HandRange;
        let configs: Vec<(&str, Vec<&str>)> = vec![("Qs8d2h", vec!["JJ+", "A2s+"]), ("AsKd7c", vec!["QQ+", "AKs,AKo", "76s:0.5,2c2d"]), ("Ks9d4c", vec!["AA:0,QQ", "JJ:0.25,TT:0,9s9h"])];
        let cpus = vlib::par::n_threads().max(2);
        let ks: Vec<usize> = if thorough { (2..=cpus).collect() } else { [2usize, 3, 4, 5, 8, 12, 16].iter().cloned().filter(|k| *k <= cpus).collect() };
        let mut runs = 0u64;
        for (flop_t, ranges_t) in &configs {
            // reference: the same formula as main.rs, single-threaded, through the real evaluator
            let flop = [card_idx(&flop_t[0..2]), card_idx(&flop_t[2..4]), card_idx(&flop_t[4..6])];
            let ranges: Vec<HandRange> = ranges_t.iter().map(|t| t.parse().unwrap()).collect();
            let mut expect: std::collections::BTreeMap<String, (f64, u64)> = Default::default();
            let mut total = 0u64;
            let r2 = ranges.clone();
            let reference = catch(move || {
                let mut m: std::collections::BTreeMap<String, (f64, u64)> = Default::default();
                let mut total = 0u64;
                for sd in FlopExhaustiveEvaluator::new(&board_opt(&flop), &r2) {
                    total += 1;
                    for p in sd.players().iter() {
                        let e = m.entry(p.hole_cards().to_string()).or_insert((0.0, 0));
                        e.1 += 1;
                        if p.is_winner() {
                            e.0 += 1.0 / sd.winner_len() as f64 * sd.probability() as f64;
                        }
                    }
                }
                (m, total)
            });
            if let Ok((m, t)) = reference {
                expect = m;
                total = t;
            }
            for &k in &ks {
                runs += 1;
                // the example must finish: a run that is still going after 120 s (these take well under a second) is
                // killed and what it printed so far is compared - which then lacks the totals
                let child = std::process::Command::new("taskset").arg("-c").arg(format!("0-{}", k - 1)).arg(&bin).arg(flop_t).args(ranges_t.iter()).stdout(std::process::Stdio::piped()).stderr(std::process::Stdio::null()).spawn();
                let text = match child {
                    Ok(mut ch) => {
                        let started = std::time::Instant::now();
                        let mut timed_out = false;
                        loop {
                            match ch.try_wait() {
                                Ok(Some(_)) => break,
                                Ok(None) => {
                                    if started.elapsed().as_secs() > 120 {
                                        let _ = ch.kill();
                                        let _ = ch.wait();
                                        timed_out = true;
                                        break;
                                    }
                                    std::thread::sleep(std::time::Duration::from_millis(20));
                                }
                                Err(_) => break,
                            }
                        }
                        let mut text = String::new();
                        if let Some(mut so) = ch.stdout.take() {
                            use std::io::Read;
                            let _ = so.read_to_string(&mut text);
                        }
                        if timed_out {
                            text.push_str("\n(killed after 120 s without finishing)\n");
                        }
                        text
                    }
                    Err(e) => {
                        eprintln!("  [C16] cannot run the example under taskset: {} (sub-check skipped)", e);
                        break;
                    }
                };
                let mut got_total: Option<u64> = None;
                let mut got: std::collections::BTreeMap<String, f64> = Default::default();
                for l in text.lines() {
                    if let Some(rest) = l.strip_prefix("materialized: ") {
                        got_total = rest.split_whitespace().next().and_then(|x| x.parse().ok());
                    } else if let Some((k2, v)) = l.split_once(": ") {
                        if k2.len() == 4 && v.ends_with('%') {
                            if let Ok(x) = v.trim_end_matches('%').parse::<f64>() {
                                got.insert(k2.to_string(), x);
                            }
                        }
                    }
                }
                let mut problem: Option<String> = None;
                if got_total != Some(total) {
                    problem = Some(format!("materialized {:?}, the single-threaded enumeration has {}", got_total, total));
                } else {
                    for (combo, (wins, cnt)) in &expect {
                        if *cnt == 0 {
                            continue;
                        }
                        let want = wins / *cnt as f64 * 100.0;
                        match got.get(combo) {
                            Some(x) if (x - want).abs() <= 0.0015 => {}
                            other => {
                                problem = Some(format!("{}: {:?}%, single-threaded {:.3}%", combo, other, want));
                                break;
                            }
                        }
                    }
                }
                if let Some(p) = problem {
                    rep.violation(Violation { key: format!("example workers={} flop={} ranges={:?}", k - 1, flop_t, ranges_t), sub: "example-binary".into(), case: json!({"cpus": k, "flop": flop_t, "ranges": ranges_t}), expected: json!("the per-thread results add up to the single-threaded result"), observed: json!(p) });
                }
            }
        }
        rep.machine(runs.max(1), runs.max(1), runs);
        rep.sub("example-binary", "the example program itself (main.rs + scope.rs, release build) run with CPU affinity k, i.e. k-1 workers, for k in {2,3,4,5,8,12,16} (every k up to the machine size in thorough) on two configurations: 'materialized' and every printed equity compared with the single-threaded enumeration through the same formula", runs, runs, false, json!({"worker_counts": ks.iter().map(|k| k - 1).collect::<Vec<_>>()}));
    }

    // (3) the transcription over its whole input space
    match unbound {
        Some((n, i)) => {
            rep.set("model_extension", json!({"bound_to_code": false, "first_mismatch": {"n": n, "scope": i}, "note": "the transcription g no longer matches calculate_scopes; the all-f32 extension is NOT used and the verdict rests on the direct enumeration"}));
            eprintln!("  [C16] transcription not bound to the code (first mismatch n={} i={}); extension not used", n, i);
        }
        None => {
            let total: u64 = 0x3F80_0000; // bit patterns 1 ..= 0x3F800000 are the floats in (0,1]
            let nch = 4096u64;
            let per = (total + nch - 1) / nch;
            let outs = par_map(nch as usize, |c| {
                let lo = c as u64 * per + 1;
                let hi = ((c as u64 + 1) * per).min(total);
                let mut prev = if lo > 1 { g(f32::from_bits((lo - 1) as u32)) } else { (0, 1) };
                let mut bad: Option<(u32, String)> = None;
                let mut distinct = 0u64;
                for b in lo..=hi {
                    let f = f32::from_bits(b as u32);
                    let v = g(f);
                    if v != prev {
                        distinct += 1;
                    }
                    if bad.is_none() {
                        if !valid(v.0, v.1) {
                            bad = Some((b as u32, format!("g({:e}) = {:?} is not a valid position", f, v)));
                        } else if v < prev {
                            bad = Some((b as u32, format!("g steps backwards: g({:e}) = {:?} after {:?}", f, v, prev)));
                        }
                    }
                    prev = v;
                }
                (bad, distinct)
            });
            let mut distinct = 0u64;
            for (bad, dct) in outs {
                distinct += dct;
                if let Some((bits, d)) = bad {
                    rep.violation(Violation { key: format!("fraction_bits={:#x}", bits), sub: "all-fractions".into(), case: json!({"fraction_bits": bits}), expected: json!("a valid, monotone cut point"), observed: json!(d) });
                }
            }
            if g(1.0) != (48, 49) {
                rep.violation(Violation { key: "fraction=1".into(), sub: "all-fractions".into(), case: json!({"fraction_bits": 0x3F80_0000u32}), expected: json!([48, 49]), observed: json!(format!("{:?}", g(1.0))) });
            }
            rep.set("model_extension", json!({"bound_to_code": true, "conformance_pairs_checked": scopes_seen, "note": "every cut point is g(fl((i+1)/n)); g is valid and monotone on every f32 in (0,1] and g(1) = (48,49); i -> fl((i+1)/n) is monotone, so the list is a valid tiling for every n <= 2^24"}));
            rep.sub("all-fractions", "the transcribed cut-point function g on every f32 in (0,1] (1,065,353,216 values): validity, monotonicity between adjacent floats, g(1) = (48,49). Conformance g == code was checked on every (n,i) of the direct enumeration first. distinct_nontrivial = number of cut-point changes along the line", total, distinct, true, json!({}));
            rep.machine(distinct.max(1), total, scopes_seen);
        }
    }
    rep.bound(&format!("direct enumeration: n <= {}; every n <= 2^24 only through the bound transcription", max_n));
    rep.assume("the transcription g (c16.rs) is trusted only after it agreed with calculate_scopes on every enumerated (n, i); it widens coverage and can raise an alarm only for a fraction that some n <= 2^24 produces... conservatively: any f32 in (0,1]");
    rep.finish()
}

pub fn replay(case: &Value) -> Value {
    if let Some(n) = case.get("n").and_then(|n| n.as_u64()) {
        let n = n as u32;
        let s = catch(move || scope::calculate_scopes(n));
        return match s {
            Ok(s) => json!({"n": n, "defect": check_list(n, &s).map(|(i, d)| json!({"scope": i, "what": d})), "scopes_around_defect": check_list(n, &s).map(|(i, _)| s[i.saturating_sub(1)..(i + 2).min(s.len())].iter().map(|x| json!([[x.turn_from, x.river_from], [x.turn_to, x.river_to]])).collect::<Vec<_>>())}),
            Err(e) => json!({"panic": e}),
        };
    }
    if let Some(b) = case.get("fraction_bits").and_then(|n| n.as_u64()) {
        let f = f32::from_bits(b as u32);
        return json!({"fraction": f, "g": format!("{:?}", g(f))});
    }
    json!({"error": "unsupported"})
}

#[allow(dead_code)]
fn _unused(_: FlopExhaustiveEvaluator) {}
