//! C06 (format -> parse gives the same range) and C17 (the text is canonical): one engine
//! enumerating range shapes, two oracles.

use espada::card::Rank;
use espada::hand_range::{HandRange, HandRangeToken, HandRangeTokenKind, RankPair};
use serde_json::{json, Value};
use std::collections::BTreeMap;
use vlib::cards::*;
use vlib::notation::*;
use vlib::par::par_map;
use vlib::report::{catch, Report, Violation};

#[derive(Clone, Copy, PartialEq)]
pub enum Prop {
    C06,
    C17,
}

/// the rows of the chart: pockets, then per high card suited and offsuit
fn rows() -> Vec<Vec<RP>> {
    let mut v = vec![(0..13u8).map(RP::Pocket).collect::<Vec<_>>()];
    for h in 0..12u8 {
        v.push(((h + 1)..13u8).map(|k| RP::Suited(h, k)).collect());
        v.push(((h + 1)..13u8).map(|k| RP::Offsuit(h, k)).collect());
    }
    v
}

fn add_rp(c: &mut Contents, rp: &RP, w: u32) {
    for cb in rp.combos() {
        c.insert(cb, w);
    }
}

/// contents for a base-`states` digit pattern over a row
fn row_contents(row: &[RP], mut code: u64, states: u64, wa: u32, wb: u32) -> Contents {
    let mut c = Contents::new();
    for rp in row {
        let d = code % states;
        code /= states;
        match d {
            1 => add_rp(&mut c, rp, wa),
            2 => add_rp(&mut c, rp, wb),
            _ => {}
        }
    }
    c
}

fn format_range(c: &Contents) -> Result<(String, HandRange), String> {
    let c = c.clone();
    catch(move || {
        let r = range_of(&c);
        (r.to_string(), r)
    })
}

/// C06 oracle
fn check_roundtrip(c: &Contents) -> Option<Value> {
    let (text, range) = match format_range(c) {
        Ok(x) => x,
        Err(e) => return Some(json!({"panic_in_format": e})),
    };
    let t2 = text.clone();
    match catch(move || t2.parse::<HandRange>().ok()) {
        Err(e) => Some(json!({"text": text, "panic_in_parse": e})),
        Ok(None) => Some(json!({"text": text, "problem": "the text does not parse"})),
        Ok(Some(back)) => {
            let bc = contents_of(&back);
            if &bc != c || back != range {
                let missing: Vec<String> = c.iter().filter(|(k, _)| !bc.contains_key(k)).take(4).map(|(k, _)| k.text()).collect();
                let extra: Vec<String> = bc.iter().filter(|(k, _)| !c.contains_key(k)).take(4).map(|(k, _)| k.text()).collect();
                let wrong: Vec<String> = c.iter().filter_map(|(k, w)| bc.get(k).filter(|g| *g != w).map(|g| format!("{}: {:e} -> {:e}", k.text(), f32::from_bits(*w), f32::from_bits(*g)))).take(4).collect();
                Some(json!({"text": text, "combos": c.len(), "combos_after_round_trip": bc.len(), "lost": missing, "gained": extra, "weight_changed": wrong}))
            } else {
                None
            }
        }
    }
}

/// C17 oracle on a text
fn check_canonical_text(c: &Contents, text: &str) -> Option<Value> {
    let expected = canon_tokens(c);
    let (_, left) = split(c);
    let pieces: Vec<&str> = if text.is_empty() { vec![] } else { text.split(',').collect() };
    let mut rank_tokens: Vec<String> = vec![];
    let mut card_pairs: BTreeMap<Combo, String> = BTreeMap::new();
    let mut seen_card_pair = false;
    for p in &pieces {
        match parse_card_pair_piece(p) {
            Some((cb, w)) => {
                seen_card_pair = true;
                if let Some(prev) = card_pairs.get(&cb) {
                    if prev != &w {
                        return Some(json!({"text": text, "problem": format!("leftover combo {} written with two different weights", cb.text())}));
                    }
                }
                card_pairs.insert(cb, w);
            }
            None => {
                if seen_card_pair {
                    return Some(json!({"text": text, "problem": "a rank-pair token follows a leftover single combo"}));
                }
                rank_tokens.push(p.to_string());
            }
        }
    }
    if rank_tokens != expected {
        let i = rank_tokens.iter().zip(expected.iter()).position(|(a, b)| a != b).unwrap_or(rank_tokens.len().min(expected.len()));
        return Some(json!({"text": text, "problem": "rank-pair tokens differ from the canonical list (pockets from aces down; per high card suited then offsuit; maximal runs)", "first_difference_at": i, "written": rank_tokens.get(i), "canonical": expected.get(i), "written_tokens": rank_tokens.len(), "canonical_tokens": expected.len()}));
    }
    let exp_left: BTreeMap<Combo, String> = left.iter().map(|(k, w)| (*k, weight_suffix(*w))).collect();
    if card_pairs != exp_left {
        return Some(json!({"text": text, "problem": "the leftover section is not the set of combos outside complete rank pairs", "written": card_pairs.len(), "expected": exp_left.len()}));
    }
    None
}

fn check_canonical(c: &Contents) -> Option<Value> {
    match format_range(c) {
        Err(e) => Some(json!({"panic_in_format": e})),
        Ok((text, _)) => check_canonical_text(c, &text),
    }
}

fn check(prop: Prop, c: &Contents) -> Option<Value> {
    match prop {
        Prop::C06 => check_roundtrip(c),
        Prop::C17 => check_canonical(c),
    }
}

fn bits(w: f32) -> u32 {
    w.to_bits()
}

pub fn weight_list() -> Vec<f32> {
    vec![1.0, 0.5, 0.25, 0.3, 0.1, 1.0 / 3.0, 1e-7, 0.99999994, 0.0, f32::from_bits(1), 0.7, 0.123456789]
}

fn record(rep: &mut Report, sub: &str, c: &Contents, what: &str, b: Value) {
    rep.violation(Violation {
        key: format!("range={}", contents_text(c)),
        sub: sub.into(),
        case: json!({"contents": c.iter().map(|(k, w)| json!([k.0, k.1, w])).collect::<Vec<_>>()}),
        expected: json!(what),
        observed: b,
    });
}

const WHAT06: &str = "to_string().parse() gives the same combos with bit-identical weights";
const WHAT17: &str = "canonical text: maximal runs as one token, rows in order, leftovers last";

pub fn run(tier: &str, prop: Prop) -> i32 {
    let id = if prop == Prop::C06 { "C06" } else { "C17" };
    let what = if prop == Prop::C06 { WHAT06 } else { WHAT17 };
    let mut rep = Report::new(id, tier);
    let thorough = tier == "thorough";
    let rws = rows();
    let (wa, wb) = (bits(1.0), bits(0.5));

    // (i) row patterns
    // C17 never re-parses, so its sweep is cheap enough to be complete in both tiers up to 10 cells
    let three_upto = if thorough { 13 } else if prop == Prop::C17 { 12 } else { 7 };
    let mut jobs: Vec<(usize, u64, u64, u64)> = vec![]; // (row, states, lo, hi)
    for (ri, row) in rws.iter().enumerate() {
        let l = row.len() as u32;
        let states: u64 = if l <= three_upto { 3 } else { 2 };
        let total = states.pow(l);
        let chunk = 2048u64;
        let mut lo = 0;
        while lo < total {
            jobs.push((ri, states, lo, (lo + chunk).min(total)));
            lo += chunk;
        }
    }
    let outs = par_map(jobs.len(), |j| {
        let (ri, states, lo, hi) = jobs[j];
        let mut bad = vec![];
        let mut multi_token = 0u64;
        for code in lo..hi {
            let c = row_contents(&rws[ri], code, states, wa, wb);
            if canon_tokens(&c).len() >= 2 {
                multi_token += 1;
            }
            if let Some(b) = check(prop, &c) {
                if bad.len() < 2 {
                    bad.push((c, b));
                }
            }
        }
        (bad, hi - lo, multi_token)
    });
    let mut n = 0u64;
    let mut nt = 0u64;
    for (bad, k, m) in outs {
        n += k;
        nt += m;
        for (c, b) in bad {
            record(&mut rep, "row-patterns", &c, what, b);
        }
    }
    rep.sub("row-patterns", &format!("every row of the chart (13 pocket cells; for each high card its suited and its offsuit kickers, 12..1 cells): every assignment of {{absent, complete at weight 1, complete at weight 0.5}} to the cells for rows of <= {} cells, {{absent, complete}} for longer rows. distinct_nontrivial = patterns whose canonical text has >= 2 rank-pair tokens", three_upto), n, nt, thorough, json!({"rows": rws.len(), "three_state_rows_up_to_cells": three_upto}));
    rep.sample(json!({"pattern": "pockets A,K,Q at 1, J absent, T,9 at 0.5", "text": range_of(&row_contents(&rws[0], 1 + 3 + 9 + 2 * 81 + 2 * 243, 3, wa, wb)).to_string()}));

    // (ii) partial patterns inside one rank pair
    let mut jobs: Vec<(RP, u64, u64, u64)> = vec![];
    for rp in RP::all() {
        let k = rp.combos().len() as u32;
        let states: u64 = match rp {
            RP::Offsuit(h, kk) => {
                if thorough && ((h, kk) == (0, 1)) {
                    3
                } else if thorough || [(0u8, 1u8), (2, 5), (11, 12)].contains(&(h, kk)) {
                    2
                } else {
                    0
                }
            }
            _ => 3,
        };
        if states == 0 {
            continue;
        }
        let total = states.pow(k);
        let chunk = 1024u64;
        let mut lo = 0;
        while lo < total {
            jobs.push((rp, states, lo, (lo + chunk).min(total)));
            lo += chunk;
        }
    }
    let outs = par_map(jobs.len(), |j| {
        let (rp, states, lo, hi) = jobs[j];
        let combos = rp.combos();
        let mut bad = vec![];
        for code in lo..hi {
            let mut c = Contents::new();
            let mut x = code;
            for cb in &combos {
                match x % states {
                    1 => {
                        c.insert(*cb, wa);
                    }
                    2 => {
                        c.insert(*cb, wb);
                    }
                    _ => {}
                }
                x /= states;
            }
            if let Some(b) = check(prop, &c) {
                if bad.len() < 2 {
                    bad.push((c, b));
                }
            }
        }
        (bad, hi - lo)
    });
    let mut n = 0u64;
    for (bad, k) in outs {
        n += k;
        for (c, b) in bad {
            record(&mut rep, "inside-rank-pair", &c, what, b);
        }
    }
    rep.sub("inside-rank-pair", if thorough { "every {absent, weight 1, weight 0.5} pattern over the combos of one rank pair: 3^6 for all 13 pockets, 3^4 for all 78 suited, 2^12 for all 78 offsuit and 3^12 for AKo" } else { "every {absent, 1, 0.5} pattern over the combos of one rank pair: 3^6 for all 13 pockets, 3^4 for all 78 suited; {absent, 1} 2^12 for AKo, Q9o, 32o" }, n, n, false, json!({}));

    // (iii) all rows at once + full / empty
    let nk: u64 = if thorough { 3000 } else { 150 };
    let outs = par_map(nk as usize, |k| {
        let k = k as u64;
        let mut c = Contents::new();
        for (ri, row) in rws.iter().enumerate() {
            // a different pattern per row, derived from k
            let code = k.wrapping_mul(2654435761).wrapping_add(ri as u64 * 40503) % 3u64.pow(row.len() as u32);
            c.extend(row_contents(row, code, 3, wa, wb));
        }
        // sprinkle leftovers: remove one combo from every 5th rank pair present
        if k % 2 == 1 {
            let keys: Vec<Combo> = c.keys().cloned().collect();
            for (i, cb) in keys.iter().enumerate() {
                if i % 29 == (k as usize % 29) {
                    c.remove(cb);
                }
            }
        }
        check(prop, &c).map(|b| (c, b))
    });
    for o in outs {
        if let Some((c, b)) = o {
            record(&mut rep, "whole-chart", &c, what, b);
        }
    }
    let mut extra = 0u64;
    for classes in 0..4u32 {
        // classes = 0: empty; 1..3: full 1326-combo range with that many weight classes
        let mut c = Contents::new();
        if classes > 0 {
            for cb in all_combos() {
                let w = [1.0f32, 0.5, 0.25][(RP::of_combo(&cb).combos()[0].id() as u32 % classes) as usize];
                c.insert(cb, bits(w));
            }
        }
        extra += 1;
        if let Some(b) = check(prop, &c) {
            record(&mut rep, "whole-chart", &c, what, b);
        }
    }
    // long texts: wide ranges in which no two combos share a weight (nothing merges: one token per combo, eight or
    // nine weight digits each - the full range prints as 1,326+ tokens and well over 16 KiB)
    for n in [100usize, 400, 700, 1000, 1200, 1326] {
        let mut c = Contents::new();
        for (i, cb) in all_combos().into_iter().enumerate().take(n) {
            c.insert(cb, bits((i as f32 + 1.0) / 1327.0));
        }
        extra += 1;
        if let Some(b) = check(prop, &c) {
            record(&mut rep, "whole-chart", &c, what, b);
        }
    }
    rep.sub("whole-chart", "a different 3-state pattern on every one of the 25 rows at once (half of them with single combos knocked out to create leftovers), the full 1326-combo range with 1, 2 and 3 weight classes, the empty range, and the first 100..1326 combos each with a weight of its own (up to 22 KB of text)", nk + extra, nk + extra, false, json!({}));

    // (iv) weights
    let ws = weight_list();
    let mut nw = 0u64;
    for &w in &ws {
        for &w2 in &ws {
            if w2 != 1.0 && w2 != w && w2 != 0.25 {
                continue;
            }
            let mut c = Contents::new();
            add_rp(&mut c, &RP::Pocket(0), bits(w));
            add_rp(&mut c, &RP::Pocket(1), bits(w));
            add_rp(&mut c, &RP::Pocket(2), bits(w2));
            add_rp(&mut c, &RP::Suited(0, 3), bits(w));
            add_rp(&mut c, &RP::Offsuit(5, 6), bits(w2));
            c.insert(Combo::new(40, 45), bits(w));
            c.insert(Combo::new(41, 51), bits(w2));
            nw += 1;
            if let Some(b) = check(prop, &c) {
                record(&mut rep, "weights", &c, what, b);
            }
        }
    }
    rep.sub("weights", "a mixed range (run, single, suited, offsuit, two leftovers) under pairs of weights from {1, 0.5, 0.25, 0.3, 0.1, 1/3, 1e-7, 0.99999994, 0, smallest subnormal, 0.7, 0.123456789}", nw, nw, false, json!({"weights": ws.iter().map(|w| format!("{:e}", w)).collect::<Vec<_>>()}));
    rep.bound("weights: -0.0, NaN, infinities and values above 1 are outside 'weights in [0,1]' and are not used");
    // (iv-b) every weight whose text has up to three (thorough: four) fraction digits, and the 512 floats next to
    // 1, 0.5, 0.1 and 0 from above/below: all digit pairs and triples the printed weight can contain
    {
        let mut ws2: Vec<f32> = vec![];
        let den = if thorough { 10_000u32 } else { 1000 };
        for k in 0..=den {
            ws2.push(k as f32 / den as f32);
        }
        for base in [1.0f32, 0.5, 0.1] {
            for d in 1..=128u32 {
                ws2.push(f32::from_bits(base.to_bits() - d));
            }
        }
        for d in 1..=128u32 {
            ws2.push(f32::from_bits(d));
        }
        let outs = par_map(ws2.len(), |i| {
            let w = ws2[i];
            let mut c = Contents::new();
            add_rp(&mut c, &RP::Pocket(4), bits(w));
            add_rp(&mut c, &RP::Suited(0, 3), bits(1.0));
            add_rp(&mut c, &RP::Suited(0, 4), bits(w));
            c.insert(Combo::new(40, 45), bits(w));
            c.insert(Combo::new(41, 51), bits(0.5));
            check(prop, &c).map(|b| (c, b))
        });
        for o in outs.into_iter().flatten() {
            record(&mut rep, "weight-texts", &o.0, what, o.1);
        }
        rep.sub("weight-texts", &format!("a mixed range (pocket, suited run broken by the weight, leftovers) under every weight k/{} and the 128 floats just below 1, 0.5, 0.1 and just above 0", den), ws2.len() as u64, ws2.len() as u64, false, json!({}));
    }

    cell_pairs(&mut rep, prop, what, thorough);
    parsed_ranges(&mut rep, prop);
    other_constructors(&mut rep, prop, what);
    related_values(&mut rep, prop, what);
    tail_runs_with_leftovers(&mut rep, prop, what);
    failing_writer(&mut rep, prop);
    if prop == Prop::C06 {
        tokens_roundtrip(&mut rep);
    } else {
        histories(&mut rep, thorough);
    }
    rep.bound("ranges: structured shapes (rows, inside one rank pair, whole-chart diagonals), not all 2^1326 subsets");
    rep.assume("M-canon / M-split (vlib/src/notation.rs) transcribe the statement; weight text is Rust's shortest round-trip f32 Display");
    if prop == Prop::C17 {
        rep.assume("leftover pocket combos may be written more than once (the repository's own test it_formats_incomplete_pocket_jacks pins 'JsJh,JsJd,JsJc,JsJh,...'); the leftover section is compared as a set");
    }
    rep.finish()
}

/// ranges made of two cells of the chart in different states: the partial states keep or drop the
/// combo that a formatter / decomposer is most likely to probe (the first combo of the rank pair)
pub fn cell_pair_contents(thorough: bool) -> Vec<Contents> {
    let rps = RP::all();
    let (wa, wb) = (bits(1.0), bits(0.5));
    let mut out = vec![];
    // state of a cell: 0 complete a, 1 complete b, 2 only the first combo, 3 all but the first combo,
    // 4 first half at a / second half at b, 5 alternating a b a b
    let fill = |c: &mut Contents, rp: &RP, st: u8| {
        let cs = rp.combos();
        for (i, cb) in cs.iter().enumerate() {
            match st {
                0 => {
                    c.insert(*cb, wa);
                }
                1 => {
                    c.insert(*cb, wb);
                }
                2 => {
                    if i == 0 {
                        c.insert(*cb, wa);
                    }
                }
                3 => {
                    if i != 0 {
                        c.insert(*cb, wa);
                    }
                }
                4 => {
                    c.insert(*cb, if i < cs.len() / 2 { wa } else { wb });
                }
                _ => {
                    c.insert(*cb, if i % 2 == 0 { wa } else { wb });
                }
            }
        }
    };
    for (i, x) in rps.iter().enumerate() {
        for (j, y) in rps.iter().enumerate() {
            if i == j {
                continue;
            }
            // same cell of the grid (AKs beside AKo), neighbours in a row, or (thorough) any two cells
            let same_cell = match (x, y) {
                (RP::Suited(a, b), RP::Offsuit(c, d)) | (RP::Offsuit(a, b), RP::Suited(c, d)) => a == c && b == d,
                _ => false,
            };
            let far = !same_cell;
            for (sx, sy) in [(2u8, 0u8), (3, 0), (4, 0), (5, 1), (0, 2), (1, 3), (2, 2), (0, 0)] {
                if far && !thorough && !((sx, sy) == (2, 0) || (sx, sy) == (3, 0) || (sx, sy) == (0, 0)) {
                    continue;
                }
                // both cells complete at one weight: every ordered pair (runs must not cross rows); the partial states: a fifth
                if far && !thorough && (sx, sy) != (0, 0) && (i * 7 + j) % 5 != 0 {
                    continue;
                }
                if (sx, sy) == (0, 0) && i > j {
                    continue;
                }
                let mut c = Contents::new();
                fill(&mut c, x, sx);
                fill(&mut c, y, sy);
                out.push(c);
            }
        }
    }
    out
}

fn cell_pairs(rep: &mut Report, prop: Prop, what: &str, thorough: bool) {
    let cs = cell_pair_contents(thorough);
    let chunk = 256;
    let nch = (cs.len() + chunk - 1) / chunk;
    let outs = par_map(nch, |k| {
        let mut bad = vec![];
        for c in &cs[k * chunk..((k + 1) * chunk).min(cs.len())] {
            if let Some(b) = check(prop, c) {
                if bad.len() < 2 {
                    bad.push((c.clone(), b));
                }
            }
        }
        bad
    });
    for bad in outs {
        for (c, b) in bad {
            record(rep, "cell-pairs", &c, what, b);
        }
    }
    rep.sub("cell-pairs", "two cells of the chart in different states (complete at either weight, only the first combo, all but the first combo, half/half, alternating weights): all 78 same-cell pairs (AKs beside AKo, both directions) in seven state pairs, and ordered pairs of different cells in the partial-then-complete states (a fifth of them in quick, all 28,392 in every state pair in thorough)", cs.len() as u64, cs.len() as u64, thorough, json!({}));
}

/// ranges obtained by PARSING (either card order, either rank order): the range object itself must
/// print canonically and round-trip - not only a range rebuilt from its contents
fn parsed_ranges(rep: &mut Report, prop: Prop) {
    let mut texts: Vec<String> = vec![];
    for a in 0..52u8 {
        for b in 0..52u8 {
            if a != b {
                texts.push(format!("{}{}", card_text(a), card_text(b)));
                if (a as usize * 52 + b as usize) % 9 == 0 {
                    texts.push(format!("{}{}:0.25,{}{}:0.75", card_text(a), card_text(b), card_text(b), card_text(a)));
                }
            }
        }
    }
    // all six / four / twelve combos of a rank pair spelled second-card-first
    for rp in RP::all() {
        let t: Vec<String> = rp.combos().iter().map(|c| format!("{}{}", card_text(c.1), card_text(c.0))).collect();
        texts.push(t.join(","));
    }
    for h in 0..12usize {
        for k in (h + 1)..13usize {
            texts.push(format!("{}{}s", RANK_CHARS[k], RANK_CHARS[h]));
            texts.push(format!("{}{}o:0.5,{}{}s", RANK_CHARS[k], RANK_CHARS[h], RANK_CHARS[h], RANK_CHARS[k]));
        }
    }
    let chunk = 128;
    let nch = (texts.len() + chunk - 1) / chunk;
    let outs = par_map(nch, |k| {
        let mut bad = vec![];
        for t in &texts[k * chunk..((k + 1) * chunk).min(texts.len())] {
            let t2 = t.clone();
            let r = catch(move || {
                let range: HandRange = t2.parse().unwrap();
                let text = range.to_string();
                let back: HandRange = text.parse().unwrap();
                (contents_of(&range), text, back == range, range.card_pairs().keys().all(|cp| cp[0] < cp[1]))
            });
            let problem = match r {
                Err(e) => Some(json!({"panic": e})),
                Ok((contents, text, same, canonical_keys)) => {
                    if !canonical_keys {
                        Some(json!({"problem": "the parsed range holds a key that is not in canonical form", "prints": text}))
                    } else if prop == Prop::C06 && !same {
                        Some(json!({"problem": "the parsed range does not equal the range parsed from its own text", "prints": text}))
                    } else {
                        check_canonical_text(&contents, &text)
                    }
                }
            };
            if let Some(p) = problem {
                if bad.len() < 3 {
                    bad.push((t.clone(), p));
                }
            }
        }
        bad
    });
    for bad in outs {
        for (t, p) in bad {
            let shown = if t.len() > 60 { format!("{}...", &t[..60]) } else { t.clone() };
            rep.violation(Violation { key: format!("parsed={}", shown), sub: "parsed-ranges".into(), case: json!({"text": t}), expected: json!("a range obtained by parsing prints canonically and parses back to itself"), observed: p });
        }
    }
    rep.sub("parsed-ranges", "ranges obtained by parsing: all 2,652 ordered card-pair texts, a ninth of them also as 'ab:0.25,ba:0.75', the combos of every rank pair spelled second-card-first, every kicker-first rank-pair token alone and beside its high-first twin: canonical keys, canonical text, and the object equals the range parsed from its own text", texts.len() as u64, texts.len() as u64, true, json!({}));
}

/// the remaining ways of building and reading a range: collect() from bare pairs (weight 1), empty(),
/// iteration over a reference
fn other_constructors(rep: &mut Report, prop: Prop, what: &str) {
    let mut shapes: Vec<Vec<Combo>> = RP::all().iter().map(|rp| rp.combos()).collect();
    shapes.push(all_combos());
    shapes.push(vec![]);
    shapes.push(all_combos().into_iter().step_by(3).collect());
    for (i, rp) in RP::all().iter().enumerate() {
        if i % 6 == 0 {
            let mut v = rp.combos();
            v.pop();
            v.push(Combo::new(0, 51));
            shapes.push(v);
        }
    }
    let outs = par_map(shapes.len(), |i| {
        let combos = shapes[i].clone();
        let contents: Contents = combos.iter().map(|c| (*c, bits(1.0))).collect();
        let r = catch(move || {
            let bare: HandRange = combos.iter().map(|c| c.card_pair()).collect();
            let weighted: HandRange = combos.iter().map(|c| (c.card_pair(), 1.0f32)).collect();
            let mut twice: Vec<espada::hand_range::CardPair> = combos.iter().map(|c| c.card_pair()).collect();
            twice.extend(combos.iter().rev().map(|c| c.card_pair()));
            let bare_twice: HandRange = twice.into_iter().collect();
            let by_ref: Contents = (&bare).into_iter().map(|(cp, w)| (Combo::of(cp), w.to_bits())).collect();
            let empty_ok = !combos.is_empty() || (bare == HandRange::empty() && HandRange::empty().to_string().is_empty());
            (contents_of(&bare), by_ref, bare == weighted && bare == bare_twice && empty_ok, bare.to_string(), weighted.to_string(), bare_twice.to_string())
        });
        match r {
            Err(e) => Some((contents, json!({"panic": e}))),
            Ok((c1, c2, eq, t1, t2, t3)) => {
                if c1 != contents || c2 != contents {
                    Some((contents, json!({"problem": "collect() from bare pairs (weight 1) or iteration over &range does not give the inserted combos at weight 1"})))
                } else if !eq || t1 != t2 || t1 != t3 {
                    Some((contents, json!({"problem": "ranges with equal contents built from bare pairs, weighted pairs and repeated pairs differ", "bare": t1, "weighted": t2, "bare_twice": t3})))
                } else {
                    check(prop, &contents).map(|v| (contents, v))
                }
            }
        }
    });
    let n = shapes.len() as u64;
    for o in outs {
        if let Some((c, b)) = o {
            record(rep, "other-constructors", &c, what, b);
        }
    }
    rep.sub("other-constructors", "every rank pair, the full range, the empty range, every third combo and 29 mixed shapes built by collect() from bare pairs (FromIterator<CardPair>, weight 1), from weighted pairs and from every pair twice; read back through card_pairs() and through iteration over &range; HandRange::empty()", n, n, false, json!({}));
}

/// Two values that are related - a range and its clone, its re-parse, its re-collection, the evaluator built from it -
/// stay independent: heavy use of one (all observers, an evaluator drained from it, dropping it) leaves the contents
/// and the text of the others as they were.
fn related_values(rep: &mut Report, prop: Prop, what: &str) {
    use espada::evaluator::FlopExhaustiveEvaluator;
    let mut shapes: Vec<Contents> = vec![];
    let rps = RP::all();
    for (i, rp) in rps.iter().enumerate() {
        let mut c = Contents::new();
        add_rp(&mut c, rp, bits(0.5));
        let next = &rps[(i + 1) % rps.len()];
        c.insert(next.combos()[0], bits(0.25));
        shapes.push(c);
    }
    for n in [1usize, 7, 64, 300, 1326] {
        shapes.push(all_combos().into_iter().take(n).enumerate().map(|(i, cb)| (cb, bits([1.0f32, 0.5, 0.25][i % 3]))).collect());
    }
    let outs = par_map(shapes.len(), |i| {
        let c = shapes[i].clone();
        let c2 = c.clone();
        let r = catch(move || {
            let a = range_of(&c2);
            let text0 = a.to_string();
            let b = a.clone();
            let parsed: HandRange = text0.parse().unwrap();
            let recollected: HandRange = (&a).into_iter().map(|(k, w)| (*k, *w)).collect();
            // heavy use of `a`: every observer twice, an evaluator built from it and drained a little, then dropped
            for _ in 0..2 {
                let _ = a.rank_pairs();
                let _ = a.orphan_card_pairs();
                let _ = a.to_string();
                let _ = a.card_pairs().len();
            }
            let board = board_opt(&[8u8, 26, 49]);
            let mut seen = 0usize;
            for flop_ranges in [vec![a.clone()], vec![a.clone(), a.clone()]] {
                for _sd in FlopExhaustiveEvaluator::new(&board, &flop_ranges).into_iter().take(40) {
                    seen += 1;
                }
            }
            let a_after = (contents_of(&a), a.to_string());
            drop(a);
            let mut problems: Vec<String> = vec![];
            if a_after.0 != c2 || a_after.1 != text0 {
                problems.push("the range itself changed by being observed and evaluated".into());
            }
            for (name, v) in [("its clone", &b), ("the re-parse of its text", &parsed), ("the re-collection of its items", &recollected)] {
                if contents_of(v) != c2 {
                    problems.push(format!("{} no longer holds the original contents after the range was used and dropped", name));
                } else if v.to_string() != text0 {
                    problems.push(format!("{} prints {:?}, the range printed {:?}", name, v.to_string(), text0));
                }
                let split_ok = {
                    let covered: usize = v.rank_pairs().iter().map(|(k, _)| (*k).into_iter().count()).sum::<usize>() + v.orphan_card_pairs().len();
                    covered == c2.len()
                };
                if !split_ok {
                    problems.push(format!("{}: rank pairs + leftovers no longer cover the contents exactly once", name));
                }
            }
            if b != parsed || b != recollected {
                problems.push("clone, re-parse and re-collection are not equal to each other".into());
            }
            (problems, seen)
        });
        match r {
            Err(e) => Some((c, json!({"panic": e}))),
            Ok((problems, _)) if !problems.is_empty() => Some((c, json!({"problems": problems}))),
            Ok(_) => None,
        }
    });
    let n = shapes.len() as u64;
    for o in outs {
        if let Some((c, b)) = o {
            record(rep, "related-values", &c, what, b);
        }
    }
    let _ = prop;
    rep.sub("related-values", "every rank pair beside a leftover combo, and the first 1..1326 combos in three weights: the range is cloned, re-parsed from its text and re-collected from its items, then used heavily (every observer twice, two evaluators built from it and partly drained) and dropped; the range itself until then, and the three relatives afterwards, keep the original contents, text and split", n, n, false, json!({}));
}

/// A run of rank pairs (every start, every end, of the suited and offsuit rows under four high cards and of the pocket
/// row) together with exactly L leftover single combos for every L in 0..=40: a formatter that keeps count of what its
/// tokens cover (to skip the leftover section when nothing is left) must get the count right for every run shape.
fn tail_runs_with_leftovers(rep: &mut Report, prop: Prop, what: &str) {
    // leftover pool: one combo from each of 40 rank pairs that no run below touches (offsuit pairs under K, Q, J, T)
    let mut pool: Vec<Combo> = vec![];
    for h in [1u8, 2, 3, 4] {
        for k in (h + 1)..13 {
            if pool.len() < 40 && k != 10 && k != 11 && k != 12 {
                pool.push(RP::Offsuit(h, k).combos()[(h as usize + k as usize) % 12]);
            }
        }
    }
    while pool.len() < 40 {
        let i = pool.len() as u8;
        pool.push(RP::Suited(1 + i % 4, 6 + i % 4).combos()[(i % 4) as usize]);
    }
    let mut jobs: Vec<(Vec<RP>, usize)> = vec![];
    for (kind, h) in [(0u8, 0u8), (0, 8), (0, 10), (0, 11), (1, 0), (1, 8), (1, 10), (1, 11), (2, 0)] {
        let cells: Vec<RP> = match kind {
            0 => ((h + 1)..13).map(|k| RP::Offsuit(h, k)).collect(),
            1 => ((h + 1)..13).map(|k| RP::Suited(h, k)).collect(),
            _ => (0..13).map(RP::Pocket).collect(),
        };
        for a in 0..cells.len() {
            for b in a..cells.len() {
                // pocket row: only runs touching either end, to keep the family small
                if kind == 2 && a != 0 && b != cells.len() - 1 {
                    continue;
                }
                jobs.push((cells[a..=b].to_vec(), 0));
            }
        }
    }
    let outs = par_map(jobs.len(), |j| {
        let (run, _) = &jobs[j];
        let mut bad = vec![];
        let mut n = 0u64;
        for l in 0..=40usize {
            let mut c = Contents::new();
            for rp in run {
                add_rp(&mut c, rp, bits(0.5));
            }
            let mut ok = true;
            for cb in pool.iter().take(l) {
                if c.contains_key(cb) {
                    ok = false;
                }
                c.insert(*cb, bits(0.25));
            }
            if !ok {
                continue;
            }
            n += 1;
            if let Some(b) = check(prop, &c) {
                if bad.len() < 2 {
                    bad.push((c, b));
                }
            }
        }
        (bad, n)
    });
    let mut n = 0u64;
    for (bad, k) in outs {
        n += k;
        for (c, b) in bad {
            record(rep, "runs-with-leftovers", &c, what, b);
        }
    }
    rep.sub("runs-with-leftovers", "every run of adjacent rank pairs in the suited and offsuit rows under A, 6, 4 and 3 and the end-touching runs of the pocket row, each together with exactly L leftover single combos for every L in 0..=40 (12, 24, 36 among them)", n, n, false, json!({}));
}

struct Limited {
    remaining: usize,
}
impl std::fmt::Write for Limited {
    fn write_str(&mut self, s: &str) -> std::fmt::Result {
        if s.len() > self.remaining {
            self.remaining = 0;
            Err(std::fmt::Error)
        } else {
            self.remaining -= s.len();
            Ok(())
        }
    }
}

/// environment deviation = the sink fails after k bytes. A failed write of one range must not
/// change what any range prints afterwards on the same thread.
fn failing_writer(rep: &mut Report, prop: Prop) {
    use std::fmt::Write as _;
    let texts = ["QQ+,AKs,AKo:0.5", "T7s+,77-55,A5s+:0.25,KdQd", "AsKs:0.5,AsQs", "22+:0.3", ""];
    let ranges: Vec<Contents> = texts.iter().map(|t| contents_of(&t.parse::<HandRange>().unwrap())).collect();
    let clean: Vec<String> = ranges.iter().map(|c| format_range(c).map(|x| x.0).unwrap_or_default()).collect();
    let outs = par_map(ranges.len(), |a| {
        let mut bad = vec![];
        let mut n = 0u64;
        let ra = range_of(&ranges[a]);
        for k in 0..=clean[a].len() {
            let r = catch(std::panic::AssertUnwindSafe(|| {
                let mut sink = Limited { remaining: k };
                let res = write!(sink, "{}", ra);
                let mut after = vec![];
                for b in 0..ranges.len() {
                    after.push(range_of(&ranges[b]).to_string());
                }
                (res.is_err(), after)
            }));
            n += 1;
            match r {
                Err(e) => bad.push((a, k, json!({"panic": e}))),
                Ok((_, after)) => {
                    for b in 0..ranges.len() {
                        if after[b] != clean[b] && bad.len() < 3 {
                            bad.push((a, k, json!({"then_formatting": texts[b], "gives": after[b], "expected": clean[b]})));
                        }
                    }
                }
            }
        }
        (bad, n)
    });
    let mut n = 0u64;
    for (bad, k) in outs {
        n += k;
        for (a, cut, o) in bad {
            rep.violation(Violation {
                key: format!("write {:?} to a sink failing after {} bytes, then format", texts[a], cut),
                sub: "failing-writer".into(),
                case: json!({"first": texts[a], "sink_capacity": cut}),
                expected: json!(if prop == Prop::C06 { "every range still prints a text that parses back to itself" } else { "the text depends only on the contents" }),
                observed: o,
            });
        }
    }
    rep.machine(n, n * ranges.len() as u64, n);
    rep.sub("failing-writer", "history with an environment fault: one of five ranges is written to a sink that fails after k bytes, for EVERY k up to the length of its text; afterwards every range is formatted on the same thread and must print exactly what it printed before any fault", n, n, true, json!({"ranges": texts}));
}

/// complete rank pairs whose combos carry weights zero, one or two ulps apart, built into hash tables of
/// different capacity and insertion order: the text must be the same (and canonical) for all builds
fn near_equal_capacities(rep: &mut Report) {
    // around 0.5, and at the top of the interval {1 - 2 ulp, 1 - 1 ulp, 1} (a sum or product of such weights rounds to
    // the same value as for all-ones)
    let jobs: Vec<(RP, u64, u32)> = vec![(RP::Suited(0, 1), 81, 0.5f32.to_bits()), (RP::Pocket(5), 729, 0.5f32.to_bits()), (RP::Suited(7, 9), 81, 0.5f32.to_bits()), (RP::Suited(0, 1), 81, 1.0f32.to_bits() - 2), (RP::Pocket(5), 729, 1.0f32.to_bits() - 2), (RP::Offsuit(3, 4), 531441, 1.0f32.to_bits() - 2)];
    let mut n = 0u64;
    let mut distinct = std::collections::BTreeSet::new();
    for (rp, total, base) in jobs {
        // the 3^12 offsuit assignments: every 97th
        let stride = if total > 1000 { 97 } else { 1 };
        let total = total / stride;
        let combos = rp.combos();
        let outs = par_map(total as usize, |code| {
            let mut x = code as u64 * stride;
            let items: Vec<(Combo, f32)> = combos.iter().map(|cb| {
                let w = f32::from_bits(base + (x % 3) as u32);
                x /= 3;
                (*cb, w)
            }).collect();
            let contents: Contents = items.iter().map(|(c, w)| (*c, w.to_bits())).collect();
            let its = items.clone();
            let r = catch(move || {
                let plain: HandRange = its.iter().map(|(c, w)| (c.card_pair(), *w)).collect();
                let mut rev = its.clone();
                rev.reverse();
                let reversed: HandRange = rev.iter().map(|(c, w)| (c.card_pair(), *w)).collect();
                // the same keys inserted many times first (large size hint, larger table), final values last
                let mut padded_items: Vec<(Combo, f32)> = vec![];
                for round in 0..16 {
                    for (c, _) in &its {
                        padded_items.push((*c, 0.125 + round as f32 / 64.0));
                    }
                }
                padded_items.extend(its.iter().cloned());
                let padded: HandRange = padded_items.iter().map(|(c, w)| (c.card_pair(), *w)).collect();
                // beside other entries (another table size again)
                let mut with_others: Vec<(Combo, f32)> = all_combos().into_iter().filter(|c| c.0 >= 40).map(|c| (c, 0.25)).collect();
                with_others.extend(its.iter().cloned());
                let crowded: HandRange = with_others.iter().map(|(c, w)| (c.card_pair(), *w)).collect();
                let joined = its.iter().map(|(cb, w)| format!("{}{}", cb.text(), weight_suffix(w.to_bits()))).collect::<Vec<_>>().join(",");
                let parsed: HandRange = joined.parse().unwrap();
                (plain.to_string(), reversed.to_string(), padded.to_string(), parsed.to_string(), crowded.to_string(), contents_of(&crowded))
            });
            match r {
                Err(e) => Some((contents, json!({"panic": e}))),
                Ok((a, b, c, d, e, crowded_contents)) => {
                    if !(a == b && a == c && a == d) {
                        return Some((contents, json!({"problem": "equal contents built along different routes print differently", "collect": a, "collect_reversed": b, "collect_after_overwritten_duplicates": c, "parsed": d})));
                    }
                    if let Some(v) = check_canonical_text(&contents, &a) {
                        return Some((contents, v));
                    }
                    check_canonical_text(&crowded_contents, &e).map(|v| (crowded_contents, v))
                }
            }
        });
        for o in outs {
            n += 1;
            if let Some((c, v)) = o {
                record(rep, "near-equal-capacities", &c, WHAT17, v);
            } else {
                distinct.insert(n);
            }
        }
    }
    rep.sub("near-equal-capacities", "AKs, 99 and 7 5s with every assignment of three weights zero, one and two ulps apart (around 0.5; AKs and 99 also with {1-2ulp, 1-ulp, 1}, and every 97th such assignment on JTo) to their combos (3^4, 3^6, 3^4), each built by collect(), collect() in reverse, collect() after sixteen rounds of overwritten duplicates (larger table), parsing, and collect() beside 66 other combos: identical and canonical text", n, distinct.len() as u64, true, json!({}));
}

const R: [Rank; 13] = RANKS;

fn tokens_roundtrip(rep: &mut Report) {
    // every constructible well-formed token x weights: to_string().parse() == token
    let ws = weight_list();
    let mut kinds: Vec<Box<dyn Fn() -> HandRangeTokenKind + Sync>> = vec![];
    for r in 0..13usize {
        kinds.push(Box::new(move || HandRangeTokenKind::SingleRankPair(RankPair::Pocket(R[r]))));
        kinds.push(Box::new(move || HandRangeTokenKind::BottomClosedRankPairRange(RankPair::Pocket(R[r]))));
        for e in (r + 1)..13usize {
            kinds.push(Box::new(move || HandRangeTokenKind::DoubleClosedRankPairRange(RankPair::Pocket(R[r]), R[e])));
        }
    }
    for h in 0..12usize {
        for k in (h + 1)..13usize {
            kinds.push(Box::new(move || HandRangeTokenKind::SingleRankPair(RankPair::Suited(R[h], R[k]))));
            kinds.push(Box::new(move || HandRangeTokenKind::SingleRankPair(RankPair::Ofsuit(R[h], R[k]))));
            kinds.push(Box::new(move || HandRangeTokenKind::BottomClosedRankPairRange(RankPair::Suited(R[h], R[k]))));
            kinds.push(Box::new(move || HandRangeTokenKind::BottomClosedRankPairRange(RankPair::Ofsuit(R[h], R[k]))));
            for e in (k + 1)..13usize {
                kinds.push(Box::new(move || HandRangeTokenKind::DoubleClosedRankPairRange(RankPair::Suited(R[h], R[k]), R[e])));
                kinds.push(Box::new(move || HandRangeTokenKind::DoubleClosedRankPairRange(RankPair::Ofsuit(R[h], R[k]), R[e])));
            }
        }
    }
    for cb in all_combos() {
        kinds.push(Box::new(move || HandRangeTokenKind::SingleCardPair(cb.card_pair())));
    }
    let nk = kinds.len();
    let outs = par_map(nk, |i| {
        let mut bad = vec![];
        for &w in &ws {
            let mk = &kinds[i];
            let r = catch(std::panic::AssertUnwindSafe(|| {
                let tok = HandRangeToken::new(mk(), w);
                let text = tok.to_string();
                let back = text.parse::<HandRangeToken>();
                let ok = match &back {
                    Ok(b) => *b == tok,
                    Err(_) => false,
                };
                (text, ok, format!("{:?}", back))
            }));
            match r {
                Ok((_, true, _)) => {}
                Ok((text, false, back)) => bad.push((text, json!({"parsed_back": back}))),
                Err(e) => bad.push((format!("token #{} weight {}", i, w), json!({"panic": e}))),
            }
        }
        bad
    });
    for bad in outs {
        for (text, b) in bad {
            rep.violation(Violation { key: format!("token={}", text), sub: "tokens".into(), case: json!({"token_text": text}), expected: json!("to_string().parse() gives an equal token"), observed: b });
        }
    }
    rep.sub("tokens", "every well-formed token value constructible through HandRangeToken::new (single / '+' / span over pockets, suited, offsuit with the high card first; all 1326 card pairs) x 12 weights: the text parses back to an equal token", (nk * ws.len()) as u64, nk as u64, true, json!({"token_values": nk}));
}

fn histories(rep: &mut Report, thorough: bool) {
    histories_with(rep, thorough, 1.0, 0.5, true);
    // the same search with two weights one ulp apart: "equal weight" is exact equality, and a tolerant
    // comparison makes the result depend on the order in which the hash map is walked
    histories_with(rep, thorough, 0.5, f32::from_bits(0.5f32.to_bits() + 1), false);
}

fn histories_with(rep: &mut Report, thorough: bool, wx: f32, wy: f32, big: bool) {
    // explicit-state search over insertion histories: text must be a function of the contents
    let c = |t: &str| -> Combo {
        let b = t.as_bytes();
        let f = |r: u8, s: u8| (RANK_CHARS.iter().position(|c| *c == r as char).unwrap() * 4 + SUIT_CHARS.iter().position(|c| *c == s as char).unwrap()) as u8;
        Combo::new(f(b[0], b[1]), f(b[2], b[3]))
    };
    let alpha: Vec<(Combo, f32)> = ["AsKs", "AhKh", "AdKd", "AcKc", "AsQs", "AhQh", "KsKh", "2d2c"].iter().flat_map(|t| vec![(c(t), wx), (c(t), wy)]).collect();
    let max_len = if thorough { 4 } else { 3 };
    let na = alpha.len();
    // sequences encoded as base-16 numbers with explicit length
    let mut seqs: Vec<Vec<usize>> = vec![vec![]];
    let mut frontier: Vec<Vec<usize>> = vec![vec![]];
    for _ in 0..max_len {
        let mut next = vec![];
        for s in &frontier {
            for a in 0..na {
                let mut t = s.clone();
                t.push(a);
                next.push(t);
            }
        }
        seqs.extend(next.iter().cloned());
        frontier = next;
    }
    let chunk = 512;
    let nch = (seqs.len() + chunk - 1) / chunk;
    let outs = par_map(nch, |ci| {
        let mut states: BTreeMap<Contents, String> = BTreeMap::new();
        let mut bad: Vec<(Vec<usize>, Value)> = vec![];
        let mut transitions = 0u64;
        for s in &seqs[ci * chunk..((ci + 1) * chunk).min(seqs.len())] {
            let items: Vec<(Combo, f32)> = s.iter().map(|i| alpha[*i]).collect();
            let mut contents = Contents::new();
            for (cb, w) in &items {
                contents.insert(*cb, w.to_bits());
            }
            transitions += s.len() as u64;
            let its = items.clone();
            let r = catch(move || {
                let a: HandRange = its.iter().map(|(cb, w)| (cb.card_pair(), *w)).collect();
                let b: HandRange = its.iter().filter(|_| true).map(|(cb, w)| (cb.card_pair(), *w)).collect();
                let joined = its.iter().map(|(cb, w)| format!("{}{}", cb.text(), weight_suffix(w.to_bits()))).collect::<Vec<_>>().join(",");
                let p: HandRange = joined.parse().unwrap();
                let cl = a.clone();
                (a.to_string(), b.to_string(), p.to_string(), cl.to_string(), a == b && a == p && a == cl, contents_of(&a), contents_of(&p))
            });
            match r {
                Err(e) => bad.push((s.clone(), json!({"panic": e}))),
                Ok((ta, tb, tp, tc, eq, ca, cp)) => {
                    if ca != contents || cp != contents {
                        bad.push((s.clone(), json!({"problem": "the built range does not hold the inserted contents (later insert must overwrite)"})));
                        continue;
                    }
                    if !(ta == tb && ta == tp && ta == tc && eq) {
                        bad.push((s.clone(), json!({"problem": "equal contents built along different routes print differently or compare unequal", "collect": ta, "collect_via_filter": tb, "parsed": tp, "clone": tc, "all_equal": eq})));
                        continue;
                    }
                    if let Some(b) = check_canonical_text(&contents, &ta) {
                        bad.push((s.clone(), b));
                        continue;
                    }
                    if let Some(prev) = states.get(&contents) {
                        if prev != &ta {
                            bad.push((s.clone(), json!({"problem": "two histories reach the same contents but print differently", "this": ta, "other": prev})));
                        }
                    } else {
                        states.insert(contents, ta);
                    }
                }
            }
        }
        (states, bad, transitions)
    });
    let mut states: BTreeMap<Contents, String> = BTreeMap::new();
    let mut transitions = 0u64;
    for (st, bad, tr) in outs {
        transitions += tr;
        for (s, b) in bad {
            let hist: Vec<String> = s.iter().map(|i| format!("{}{}", alpha[*i].0.text(), weight_suffix(alpha[*i].1.to_bits()))).collect();
            rep.violation(Violation { key: format!("history={}", hist.join(">")), sub: "histories".into(), case: json!({"history": hist}), expected: json!("the text depends on the contents only"), observed: b });
        }
        for (k, v) in st {
            if let Some(prev) = states.get(&k) {
                if prev != &v {
                    rep.violation(Violation { key: format!("contents={}", contents_text(&k)), sub: "histories".into(), case: json!({"contents": contents_text(&k)}), expected: json!("one text per contents"), observed: json!({"a": prev, "b": v}) });
                }
            } else {
                states.insert(k, v);
            }
        }
    }
    rep.machine(states.len() as u64, transitions, seqs.len() as u64);
    rep.sub(&format!("histories/weights-{}-{}", wx, wy), &format!("explicit-state search over insertion histories: all sequences of length <= {} over 8 combos x 2 weights (the four AKs combos can complete a rank pair), each built by collect(), by collect() through a filter (no size hint), by parsing the joined text, and cloned; states = distinct contents; the text must be a function of the state and canonical", max_len), seqs.len() as u64, states.len() as u64, true, json!({"states": states.len(), "insertions": transitions}));

    if !big {
        near_equal_capacities(rep);
        return;
    }
    // large ranges along very different histories (crossing every hash-map resize)
    let all = all_combos();
    let mut big = 0u64;
    for (name, sel) in [("all-1326", 1usize), ("every-3rd", 3), ("every-5th", 5), ("every-7th", 7)] {
        let items: Vec<(Combo, f32)> = all.iter().enumerate().filter(|(i, _)| i % sel == 0).map(|(i, c)| (*c, [1.0f32, 0.5, 0.25][i % 3])).collect();
        let contents: Contents = items.iter().map(|(c, w)| (*c, w.to_bits())).collect();
        let fwd = items.clone();
        let mut rev = items.clone();
        rev.reverse();
        let mut rot = items.clone();
        rot.rotate_left(items.len() / 3);
        let mut inter: Vec<(Combo, f32)> = vec![];
        let half = items.len() / 2;
        for i in 0..half {
            inter.push(items[i]);
            inter.push(items[items.len() - 1 - i]);
        }
        if items.len() % 2 == 1 {
            inter.push(items[half]);
        }
        // overwritten prefix: first insert everything at another weight, then the real items
        let mut over: Vec<(Combo, f32)> = items.iter().map(|(c, _)| (*c, 0.125f32)).collect();
        over.extend(items.iter().cloned());
        let mut texts = vec![];
        for (hn, h) in [("forwards", fwd), ("backwards", rev), ("rotated", rot), ("interleaved", inter), ("overwritten", over)] {
            big += 1;
            let r = catch(move || {
                let mut grown = HandRange::empty();
                // grow step by step through FromIterator on chained iterators of different size hints
                let a: HandRange = h.iter().map(|(c, w)| (c.card_pair(), *w)).collect();
                let b: HandRange = h.iter().filter(|_| true).map(|(c, w)| (c.card_pair(), *w)).collect();
                grown = if a == b { a.clone() } else { grown };
                (a.to_string(), b.to_string(), grown.to_string(), contents_of(&a))
            });
            match r {
                Err(e) => rep.violation(Violation { key: format!("big {} {}", name, hn), sub: "big-histories".into(), case: json!({"range": name, "history": hn}), expected: json!("formats"), observed: json!({"panic": e}) }),
                Ok((ta, tb, tg, ca)) => {
                    if ca != contents || ta != tb || ta != tg {
                        rep.violation(Violation { key: format!("big {} {}", name, hn), sub: "big-histories".into(), case: json!({"range": name, "history": hn}), expected: json!("same contents, same text"), observed: json!({"contents_ok": ca == contents, "texts_equal": ta == tb && ta == tg}) });
                    }
                    texts.push((hn, ta));
                }
            }
        }
        for w in texts.windows(2) {
            if w[0].1 != w[1].1 {
                rep.violation(Violation { key: format!("big {} {} vs {}", name, w[0].0, w[1].0), sub: "big-histories".into(), case: json!({"range": name}), expected: json!("identical text"), observed: json!({"a": w[0].1.chars().take(200).collect::<String>(), "b": w[1].1.chars().take(200).collect::<String>()}) });
            }
        }
        if let Some((_, t)) = texts.first() {
            if let Some(b) = check_canonical_text(&contents, t) {
                record(rep, "big-histories", &contents, WHAT17, b);
            }
        }
    }
    rep.sub("big-histories", "1326-, 442-, 266- and 190-combo ranges built forwards, backwards, rotated, interleaved from both ends and over an overwritten first pass, with and without size hint: identical, canonical text", big, big, false, json!({}));
}

pub fn replay(case: &Value) -> Value {
    if let Some(arr) = case.get("contents").and_then(|c| c.as_array()) {
        let c: Contents = arr.iter().map(|e| (Combo(e[0].as_u64().unwrap() as u8, e[1].as_u64().unwrap() as u8), e[2].as_u64().unwrap() as u32)).collect();
        let text = format_range(&c).map(|x| x.0);
        return json!({"contents": contents_text(&c), "text": format!("{:?}", text), "canonical_tokens": canon_tokens(&c), "round_trip": check_roundtrip(&c), "canonical": check_canonical(&c)});
    }
    if let Some(t) = case.get("token_text").and_then(|t| t.as_str()) {
        let t2 = t.to_string();
        let r = catch(move || format!("{:?}", t2.parse::<HandRangeToken>()));
        return json!({"token_text": t, "parsed": format!("{:?}", r)});
    }
    json!({"note": "history cases are replayed by re-running the histories sub-check", "case": case})
}
