//! C12: a range splits exactly into complete rank pairs and leftover combos.
//! Every absent/weight-a/weight-b pattern inside every rank pair, in three backgrounds,
//! against M-split.

use espada::hand_range::RankPair;
use serde_json::{json, Value};
use std::collections::BTreeMap;
use vlib::cards::*;
use vlib::notation::*;
use vlib::par::par_map;
use vlib::report::{catch, Report, Violation};

fn rp_of(r: &RankPair) -> RP {
    let code = |x: &espada::card::Rank| RANKS.iter().position(|y| y == x).unwrap() as u8;
    match r {
        RankPair::Pocket(a) => RP::Pocket(code(a)),
        RankPair::Suited(a, b) => RP::Suited(code(a).min(code(b)), code(a).max(code(b))),
        RankPair::Ofsuit(a, b) => RP::Offsuit(code(a).min(code(b)), code(a).max(code(b))),
    }
}

/// the six orders in which rank_pairs() (0), orphan_card_pairs() (1) and to_string() (2) can be called first on a
/// freshly built range
const CALL_ORDERS: [[u8; 3]; 8] = [[0, 1, 2], [1, 0, 2], [2, 1, 0], [1, 2, 0], [0, 2, 1], [2, 0, 1], [0, 1, 9], [1, 0, 9]];

/// the order used for a range is a function of its contents, so that the big pattern families spread over all six
pub fn check_split(c: &Contents) -> Option<Value> {
    let h: usize = c.iter().map(|(k, w)| k.id() * 7 + (*w as usize % 5)).sum::<usize>() + c.len();
    // wide ranges: only the two orders without to_string(); the second round of questions is left to the call-orders
    // sub-check
    // to_string() itself computes both views and then formats, so an order that includes it costs twice as much:
    // a third of the small ranges get one of the six orders, the rest one of the two without to_string()
    if c.len() > 64 || (h / 6) % 3 != 0 {
        check_split_in_order(c, 6 + h % 2, false)
    } else {
        check_split_in_order(c, h % 6, false)
    }
}

pub fn check_split_in_order(c: &Contents, order: usize, ask_again: bool) -> Option<Value> {
    let cc = c.clone();
    let r = catch(move || {
        let range = range_of(&cc);
        let mut rps: Vec<(RP, u32)> = vec![];
        let mut left = Contents::new();
        for call in CALL_ORDERS[order % 8] {
            match call {
                0 => rps = range.rank_pairs().iter().map(|(k, w)| (rp_of(k), w.to_bits())).collect(),
                1 => left = range.orphan_card_pairs().iter().map(|(cp, w)| (Combo::of(cp), w.to_bits())).collect(),
                2 => {
                    let _ = range.to_string();
                }
                _ => {}
            }
        }
        if !ask_again {
            return (rps, left, true);
        }
        // ... and asked again, on the same object and on a clone, the answers stay the same
        let again: Vec<(RP, u32)> = range.rank_pairs().iter().map(|(k, w)| (rp_of(k), w.to_bits())).collect();
        let left_again: Contents = range.clone().orphan_card_pairs().iter().map(|(cp, w)| (Combo::of(cp), w.to_bits())).collect();
        let mut a = rps.clone();
        let mut b = again;
        a.sort();
        b.sort();
        let stable = a == b && left == left_again;
        (rps, left, stable)
    });
    let (rps_v, left, stable) = match r {
        Ok(x) => x,
        Err(e) => return Some(json!({"panic": e, "first_calls_in_order": CALL_ORDERS[order % 8]})),
    };
    if !stable {
        return Some(json!({"problem": "asked a second time (same object / a clone) rank_pairs() or orphan_card_pairs() answer differently", "first_calls_in_order (0 rank_pairs, 1 orphan_card_pairs, 2 to_string)": CALL_ORDERS[order % 8]}));
    }
    let rps: BTreeMap<RP, u32> = rps_v.iter().cloned().collect();
    if rps.len() != rps_v.len() {
        return Some(json!({"problem": "a rank pair is reported twice"}));
    }
    let (erps, eleft) = split(c);
    if rps != erps {
        let wrongly: Vec<String> = rps.iter().filter(|(k, w)| erps.get(k) != Some(w)).take(4).map(|(k, w)| format!("{}{}", k.text(), weight_suffix(*w))).collect();
        let missing: Vec<String> = erps.iter().filter(|(k, _)| !rps.contains_key(k)).take(4).map(|(k, w)| format!("{}{}", k.text(), weight_suffix(*w))).collect();
        return Some(json!({"problem": "rank_pairs() differs: a rank pair is reported exactly when all its combos are present with one weight", "reported_but_not_complete_or_wrong_weight": wrongly, "complete_but_not_reported": missing}));
    }
    if left != eleft {
        let extra: Vec<String> = left.iter().filter(|(k, w)| eleft.get(k) != Some(w)).take(4).map(|(k, _)| k.text()).collect();
        let missing: Vec<String> = eleft.iter().filter(|(k, _)| !left.contains_key(k)).take(4).map(|(k, _)| k.text()).collect();
        return Some(json!({"problem": "orphan_card_pairs() differs from the combos not covered by a reported rank pair", "unexpected_or_wrong_weight": extra, "missing": missing}));
    }
    // the two views cover every combo exactly once
    let mut covered = 0usize;
    for (rp, _) in &rps {
        covered += rp.combos().len();
    }
    if covered + left.len() != c.len() {
        return Some(json!({"problem": "the two views do not partition the range", "covered_by_rank_pairs": covered, "leftovers": left.len(), "range": c.len()}));
    }
    None
}

fn pattern(combos: &[Combo], mut code: u64, states: u64, wa: u32, wb: u32, c: &mut Contents) {
    for cb in combos {
        match code % states {
            1 => {
                c.insert(*cb, wa);
            }
            2 => {
                c.insert(*cb, wb);
            }
            _ => {
                c.remove(cb);
            }
        }
        code /= states;
    }
}

fn other_kind(rp: &RP) -> RP {
    match *rp {
        RP::Pocket(r) => {
            if r < 12 {
                RP::Pocket(r + 1)
            } else {
                RP::Pocket(r - 1)
            }
        }
        RP::Suited(h, k) => RP::Offsuit(h, k),
        RP::Offsuit(h, k) => RP::Suited(h, k),
    }
}

pub fn run(tier: &str) -> i32 {
    let mut rep = Report::new("C12", tier);
    let thorough = tier == "thorough";
    let (wa, wb, wc) = (1.0f32.to_bits(), 0.5f32.to_bits(), 0.25f32.to_bits());
    // background: the complementary full range at weight c
    let mut full = Contents::new();
    for cb in all_combos() {
        full.insert(cb, wc);
    }
    // jobs: (rank pair, states, background, lo, hi)
    let mut jobs: Vec<(RP, u64, u8, u64, u64)> = vec![];
    for rp in vlib::report::thin(RP::all(), 3) {
        let k = rp.combos().len() as u32;
        for bg in 0..3u8 {
            let states: u64 = match rp {
                RP::Offsuit(h, kk) => {
                    let three = if thorough { bg != 1 || [(0u8, 1u8), (2, 5)].contains(&(h, kk)) } else { bg == 0 && [(0u8, 1u8), (11, 12)].contains(&(h, kk)) };
                    if three {
                        3
                    } else if bg != 1 || thorough || (h + kk) % 13 == 1 {
                        2
                    } else {
                        0
                    }
                }
                _ => 3,
            };
            if states == 0 {
                continue;
            }
            let total = states.pow(k);
            let chunk = if bg == 1 { 512 } else { 8192 };
            let mut lo = 0;
            while lo < total {
                jobs.push((rp, states, bg, lo, (lo + chunk).min(total)));
                lo += chunk;
            }
        }
    }
    let outs = par_map(jobs.len(), |j| {
        let (rp, states, bg, lo, hi) = jobs[j];
        let combos = rp.combos();
        let other = other_kind(&rp).combos();
        let mut bad = vec![];
        let mut complete = 0u64;
        let mut c = if bg == 1 { full.clone() } else { Contents::new() };
        for code in lo..hi {
            pattern(&combos, code, states, wa, wb, &mut c);
            if bg == 2 {
                // the same pattern (cyclically) on the adjacent rank pair of the other kind
                let m = states.pow(other.len() as u32);
                pattern(&other, code % m, states, wa, wb, &mut c);
            }
            if split(&c).0.contains_key(&rp) {
                complete += 1;
            }
            if let Some(b) = check_split(&c) {
                if bad.len() < 2 {
                    bad.push((c.clone(), b));
                }
            }
        }
        (bad, hi - lo, complete)
    });
    let mut n = [0u64; 3];
    let mut complete = 0u64;
    for (j, (bad, k, cmp)) in outs.into_iter().enumerate() {
        n[jobs[j].2 as usize] += k;
        complete += cmp;
        for (c, b) in bad {
            rep.violation(Violation {
                key: format!("range={}", contents_text(&c)),
                sub: ["alone", "inside-full-range", "beside-other-kind"][jobs[j].2 as usize].into(),
                case: json!({"contents": c.iter().map(|(k, w)| json!([k.0, k.1, w])).collect::<Vec<_>>()}),
                expected: json!("rank pair reported with weight w exactly when all its combos are present with w; leftovers are exactly the other combos with their own weights"),
                observed: b,
            });
        }
    }
    // the same patterns with weights one ulp apart (and zero beside the smallest subnormal): equality of
    // weights is exact equality
    let near: [(u32, u32); 3] = [(0.5f32.to_bits(), 0.5f32.to_bits() + 1), (1.0f32.to_bits(), 1.0f32.to_bits() - 1), (0, 1)];
    let mut near_jobs: Vec<(RP, usize)> = vec![];
    for rp in vlib::report::thin(RP::all(), 3) {
        for w in 0..near.len() {
            near_jobs.push((rp, w));
        }
    }
    let outs = par_map(near_jobs.len(), |j| {
        let (rp, w) = near_jobs[j];
        let (wa, wb) = near[w];
        let combos = rp.combos();
        let k = combos.len() as u32;
        // pockets and suited: all 3-state patterns; offsuit: all {a, b} patterns without gaps
        let (states, total): (u64, u64) = if k <= 6 { (3, 3u64.pow(k)) } else { (2, 2u64.pow(k)) };
        let mut bad = vec![];
        let mut n = 0u64;
        let mut c = Contents::new();
        for code in 0..total {
            n += 1;
            if states == 3 {
                pattern(&combos, code, 3, wa, wb, &mut c);
            } else {
                let mut x = code;
                for cb in &combos {
                    c.insert(*cb, if x & 1 == 0 { wa } else { wb });
                    x >>= 1;
                }
            }
            if let Some(b) = check_split(&c) {
                if bad.len() < 2 {
                    bad.push((c.clone(), b));
                }
            }
        }
        (bad, n)
    });
    let mut n_near = 0u64;
    for (bad, k) in outs {
        n_near += k;
        for (c, b) in bad {
            rep.violation(Violation {
                key: format!("range={}", contents_text(&c)),
                sub: "near-equal-weights".into(),
                case: json!({"contents": c.iter().map(|(k, w)| json!([k.0, k.1, w])).collect::<Vec<_>>()}),
                expected: json!("weights one ulp apart are different weights"),
                observed: b,
            });
        }
    }
    rep.sub("near-equal-weights", "for every rank pair, every pattern over its combos with two weights one ulp apart ((0.5, next above), (1, next below), (0, smallest subnormal)): 3-state patterns for pockets and suited, all 2^12 two-weight fillings for offsuit", n_near, n_near, true, json!({}));
    let total: u64 = n.iter().sum();
    rep.sub(
        "patterns",
        if thorough { "for every rank pair every {absent, weight 1, weight 0.5} pattern over its combos (3^6 x 13 pockets, 3^4 x 78 suited, 3^12 x 78 offsuit) alone and beside the same pattern on the neighbouring rank pair of the other kind (AKs beside AKo); inside the complementary full range at weight 0.25: 3^6, 3^4, 2^12 for all offsuit and 3^12 for AKo, Q9o. distinct_nontrivial = patterns in which the rank pair is complete" } else { "for every rank pair every {absent, 1, 0.5} pattern over its combos for pockets and suited, {absent, 1} 2^12 for all offsuit and 3^12 for AKo and 32o - alone and beside the same pattern on the neighbouring rank pair of the other kind; inside the complementary full 1326-combo range at weight 0.25 for pockets, suited and six offsuit pairs. distinct_nontrivial = patterns in which the rank pair is complete" },
        total,
        complete,
        false,
        json!({"alone": n[0], "inside_full_range": n[1], "beside_other_kind": n[2]}),
    );
    rep.sample(json!({"range": "AsKh,AsKd,AsKc,AhKs,AhKd,AhKc,AdKs,AdKh,AdKc,AcKs,AcKh,AcKd:0.5", "expect": "AKo not reported (one combo has another weight); 12 leftovers"}));
    // two cells in different states (the family shared with C06 / C17)
    {
        let cs = crate::c06::cell_pair_contents(thorough);
        let chunk = 512;
        let nch = (cs.len() + chunk - 1) / chunk;
        let outs = par_map(nch, |k| {
            let mut bad = vec![];
            for c in &cs[k * chunk..((k + 1) * chunk).min(cs.len())] {
                if let Some(b) = check_split(c) {
                    if bad.len() < 2 {
                        bad.push((c.clone(), b));
                    }
                }
            }
            bad
        });
        for bad in outs {
            for (c, b) in bad {
                rep.violation(Violation { key: format!("range={}", contents_text(&c)), sub: "cell-pairs".into(), case: json!({"contents": c.iter().map(|(k, w)| json!([k.0, k.1, w])).collect::<Vec<_>>()}), expected: json!("M-split"), observed: b });
            }
        }
        rep.sub("cell-pairs", "two cells of the chart in different states (complete, only the first combo, all but the first combo, half/half, alternating): same-cell pairs and ordered pairs of different cells, partial before complete and complete before partial", cs.len() as u64, cs.len() as u64, thorough, json!({}));
    }
    // the same contents built along histories with repeated combos (collect with duplicates, overlapping tokens)
    {
        use espada::hand_range::HandRange;
        let mut n = 0u64;
        for rp in RP::all() {
            let combos = rp.combos();
            let base: Vec<(Combo, f32)> = combos.iter().map(|c| (*c, 0.5f32)).collect();
            let mut twice = base.clone();
            twice.extend(base.iter().cloned());
            let mut overwritten: Vec<(Combo, f32)> = combos.iter().map(|c| (*c, 1.0f32)).collect();
            overwritten.extend(base.iter().cloned());
            let mut last_twice = base.clone();
            last_twice.push(*base.last().unwrap());
            let text_twice = format!("{}:0.5,{}:0.5", rp.text(), rp.text());
            let text_over = format!("{},{}:0.5", rp.text(), rp.text());
            let text_combo_again = format!("{}:0.5,{}:0.5", rp.text(), combos[0].text());
            for (how, build) in [("collect twice", Some(twice)), ("collect overwritten", Some(overwritten)), ("collect last combo twice", Some(last_twice)), ("parse twice", None), ("parse overwritten", None), ("parse rank pair then one of its combos", None)] {
                n += 1;
                let txt = match how { "parse twice" => text_twice.clone(), "parse overwritten" => text_over.clone(), _ => text_combo_again.clone() };
                let r = catch(move || {
                    let range: HandRange = match build {
                        Some(items) => items.iter().map(|(c, w)| (c.card_pair(), *w)).collect(),
                        None => txt.parse().unwrap(),
                    };
                    let rps: Vec<(RP, u32)> = range.rank_pairs().iter().map(|(k, w)| (rp_of(k), w.to_bits())).collect();
                    let left = range.orphan_card_pairs().len();
                    (rps, left, range.card_pairs().len())
                });
                let want = (vec![(rp, 0.5f32.to_bits())], 0usize, combos.len());
                if r.as_ref().ok() != Some(&want) {
                    rep.violation(Violation { key: format!("rank pair {} built by: {}", rp.text(), how), sub: "build-histories".into(), case: json!({"rank_pair": rp.text(), "how": how}), expected: json!("the complete rank pair is reported at 0.5 with no leftovers, however the range was built"), observed: json!(format!("{:?}", r)) });
                }
            }
        }
        rep.sub("build-histories", "every rank pair, complete at weight 0.5, built six ways that insert a combo more than once (collect with every combo twice, collect over an overwritten first pass, the last combo twice, the token twice, the token overwritten, the token followed by one of its combos): reported once, no leftovers", n, n, true, json!({}));
    }
    // every order of first calls on a fresh object (a view computed lazily, or memoised by whichever observer runs
    // first, must not depend on that order): all patterns of JJ, AKs and every 2-state pattern of Q9o, alone and
    // inside the full range, x the six orders of {rank_pairs, orphan_card_pairs, to_string}
    {
        let mut jobs: Vec<(RP, u64, bool, u64)> = vec![];
        for bg in [false, true] {
            for chunk in 0..16u64 {
                jobs.push((RP::Pocket(3), 3, bg, chunk));
                jobs.push((RP::Suited(0, 1), 3, bg, chunk));
                jobs.push((RP::Pocket(12), 3, bg, chunk));
                if !bg || thorough {
                    jobs.push((RP::Offsuit(2, 5), 2, bg, chunk));
                }
            }
        }
        let outs = par_map(jobs.len(), |j| {
            let (rp, states, bg, chunk) = jobs[j];
            let combos = rp.combos();
            let total = states.pow(combos.len() as u32);
            let mut bad = vec![];
            let mut n = 0u64;
            for code in (0..total).filter(|c| c % 16 == chunk) {
                let mut c = if bg { full.clone() } else { Contents::new() };
                for cb in &combos {
                    c.remove(cb);
                }
                pattern(&combos, code, states, wa, wb, &mut c);
                for order in 0..6usize {
                    n += 1;
                    if let Some(b) = check_split_in_order(&c, order, true) {
                        if bad.len() < 2 {
                            bad.push((c.clone(), order, b));
                        }
                    }
                }
            }
            (bad, n)
        });
        let mut n = 0u64;
        for (bad, k) in outs {
            n += k;
            for (c, order, b) in bad {
                rep.violation(Violation { key: format!("range={} first calls in order {:?}", contents_text(&c), CALL_ORDERS[order]), sub: "call-orders".into(), case: json!({"contents": c.iter().map(|(k, w)| json!([k.0, k.1, w])).collect::<Vec<_>>(), "order": order}), expected: json!("M-split, whichever of rank_pairs() (0), orphan_card_pairs() (1), to_string() (2) is called first on the fresh range"), observed: b });
            }
        }
        rep.sub("call-orders", "all 3^6 patterns of JJ and of 22, all 3^4 of AKs and all 2^12 of Q9o, alone and (Q9o: thorough only) inside the full range, each on a fresh object under all six orders of first calls of rank_pairs(), orphan_card_pairs() and to_string(), then asked again on the object and on a clone (every other sub-check uses one of the six orders per range, chosen by its contents)", n, n, true, json!({}));
    }
    // overwritten in place: a range whose views were already asked for is the TARGET of clone_from (directly, and as an
    // element of a Vec that is clone_from'd) with a source nobody has looked at yet; afterwards the target must split like
    // its new contents
    {
        let rps = RP::all();
        let mut n = 0u64;
        let mut bad: Vec<(Contents, Value)> = vec![];
        for (i, rp) in rps.iter().enumerate() {
            let mut old = Contents::new();
            for cb in rp.combos() {
                old.insert(cb, wa);
            }
            let other = &rps[(i + 7) % rps.len()];
            let mut newc = Contents::new();
            for cb in other.combos() {
                newc.insert(cb, wb);
            }
            newc.insert(rp.combos()[0], wc);
            for route in 0..3u8 {
                n += 1;
                let (o2, n2) = (old.clone(), newc.clone());
                let r = catch(move || {
                    let mut target = range_of(&o2);
                    let _ = (target.rank_pairs(), target.orphan_card_pairs(), target.to_string());
                    let source = range_of(&n2);
                    match route {
                        0 => target.clone_from(&source),
                        1 => {
                            let mut v = vec![target];
                            v.clone_from(&vec![source]);
                            target = v.pop().unwrap();
                        }
                        _ => {
                            let c = source.clone();
                            target = c;
                        }
                    }
                    let rps: BTreeMap<RP, u32> = target.rank_pairs().iter().map(|(k, w)| (rp_of(k), w.to_bits())).collect();
                    let left: Contents = target.orphan_card_pairs().iter().map(|(cp, w)| (Combo::of(cp), w.to_bits())).collect();
                    (rps, left, contents_of(&target))
                });
                let (erps, eleft) = split(&newc);
                match r {
                    Err(e) => bad.push((newc.clone(), json!({"panic": e}))),
                    Ok((rps, left, cont)) => {
                        let route_name = ["clone_from", "Vec::clone_from", "assignment of a clone"][route as usize];
                        if cont != newc || rps != erps || left != eleft {
                            bad.push((newc.clone(), json!({"problem": "after clone_from the target does not split like its new contents", "route": route_name, "reported_rank_pairs": rps.keys().map(|k| k.text()).collect::<Vec<_>>(), "expected_rank_pairs": erps.keys().map(|k| k.text()).collect::<Vec<_>>()})));
                        }
                    }
                }
            }
        }
        for (c, b) in bad.into_iter().take(4) {
            rep.violation(Violation { key: format!("range={} written over an observed range by clone_from", contents_text(&c)), sub: "overwritten-in-place".into(), case: json!({"contents": c.iter().map(|(k, w)| json!([k.0, k.1, w])).collect::<Vec<_>>()}), expected: json!("M-split of the new contents"), observed: b });
        }
        rep.sub("overwritten-in-place", "for each of the 169 rank pairs: a range holding it, already observed through rank_pairs(), orphan_card_pairs() and to_string(), is overwritten by clone_from (directly, inside a Vec, by assignment of a clone) with an unobserved range holding another rank pair and one leftover: the views are those of the new contents", n, n, true, json!({}));
    }
    // a few whole-range cases
    let mut extra = 0u64;
    for c in [Contents::new(), full.clone()] {
        extra += 1;
        if let Some(b) = check_split(&c) {
            rep.violation(Violation { key: format!("range={}", contents_text(&c)), sub: "whole".into(), case: json!({"contents": c.iter().map(|(k, w)| json!([k.0, k.1, w])).collect::<Vec<_>>()}), expected: json!("M-split"), observed: b });
        }
    }
    rep.sub("whole", "the empty range and the full 1326-combo range", extra, extra, true, json!({}));
    rep.bound("ranges: one rank pair's patterns in three backgrounds, not all ranges");
    rep.assume("M-split (vlib/src/notation.rs) transcribes the statement");
    rep.finish()
}

pub fn replay(case: &Value) -> Value {
    let arr = case["contents"].as_array().unwrap();
    let c: Contents = arr.iter().map(|e| (Combo(e[0].as_u64().unwrap() as u8, e[1].as_u64().unwrap() as u8), e[2].as_u64().unwrap() as u32)).collect();
    if let Some(o) = case.get("order").and_then(|x| x.as_u64()) {
        return json!({"contents": contents_text(&c), "first_calls_in_order": CALL_ORDERS[o as usize % 6], "discrepancy": check_split_in_order(&c, o as usize, true)});
    }
    json!({"contents": contents_text(&c), "discrepancy": check_split(&c)})
}
