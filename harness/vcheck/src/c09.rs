//! C09 (parsers are total; every parsed value can be used without panicking) and
//! C10 (parsed ranges hold only real combos with weights in [0,1]).
//! Bounded-exhaustive string enumeration over alphabets built from the notation plus
//! multi-byte characters, every string of the seven token shapes, and over-long inputs.

use espada::card::{Card, Rank, Suit};
use espada::evaluator::FlopExhaustiveEvaluator;
use espada::hand_range::{CardPair, HandRange, HandRangeToken};
use serde_json::{json, Value};
use vlib::cards::*;
use vlib::par::par_map;
use vlib::report::{catch, last_panic_loc, Report, Violation};

const ALPHA35: [&str; 37] = [
    "A", "K", "Q", "J", "T", "9", "8", "7", "6", "5", "4", "3", "2", "s", "h", "d", "c", "o", "+", "-", ":", ".", ",", " ", "0", "1", "x", "a", "k", "S", "/", "\u{e9}", "\u{2660}", "\u{1F600}", "\u{0}",
    // characters whose Unicode case folding is a notation letter: KELVIN SIGN (K), LONG S (s)
    "\u{212A}", "\u{17F}",
];
const ALPHA15: [&str; 21] = [
    "A", "K", "2", "s", "o", "h", "+", "-", ":", ".", "0", "1", ",", " ", "\u{e9}", "\u{212A}", "\u{17F}",
    // NO-BREAK SPACE (C2 A0), POUND SIGN (C2 A3), a-grave (C3 A0): continuation / lead bytes that a byte-wise
    // whitespace filter can tear apart; and a tab
    "\u{a0}", "\u{a3}", "\u{e0}", "\t",
];

/// the i-th string of length `len` over `alpha`
fn nth_string(alpha: &[&str], len: usize, mut i: u64) -> String {
    let mut s = String::new();
    for _ in 0..len {
        s.push_str(alpha[(i % alpha.len() as u64) as usize]);
        i /= alpha.len() as u64;
    }
    s
}

#[derive(Default, Clone)]
struct Stats {
    strings: u64,
    parsed_small: u64,
    parsed_tokens: u64,
    nonempty_ranges: u64,
    stage2: u64,
}

fn board() -> [Option<Card>; 5] {
    board_opt(&[8, 26, 49])
}

/// everything C09 asks of a string fed to the four small parsers; returns the first panic
fn small_parsers(s: &str, st: &mut Stats) -> Option<(String, String)> {
    let t = s.to_string();
    let r = catch(move || {
        let mut parsed = 0u64;
        if let Ok(x) = t.parse::<Rank>() {
            parsed += 1;
            let _ = x.to_string();
        }
        if let Ok(x) = t.parse::<Suit>() {
            parsed += 1;
            let _ = x.to_string();
        }
        if let Ok(x) = t.parse::<Card>() {
            parsed += 1;
            let _ = x.to_string();
            let _ = u64::from(x);
        }
        match t.parse::<CardPair>() {
            Ok(x) => {
                parsed += 1;
                let _ = x.to_string();
                let _ = format!("{:?}", x);
                // a parsed card pair is a value too: it can be put into a range and handed to the evaluator,
                // or straight to Showdown::new, on boards that hold other cards of its ranks
                let range: HandRange = std::iter::once((x, 1.0f32)).collect();
                let _ = range.to_string();
                let _ = range.rank_pairs();
                let _ = range.orphan_card_pairs();
                let ia = idx_of(&x[0]);
                let ib = idx_of(&x[1]);
                let same_rank: Vec<u8> = (0..4u8).map(|s| (ia & !3) | s).filter(|c| *c != ia && *c != ib).collect();
                let mut others: Vec<u8> = (0..52u8).filter(|c| (c >> 2) != (ia >> 2) && (c >> 2) != (ib >> 2)).collect();
                others.truncate(5);
                let mut flops: Vec<[u8; 3]> = vec![[others[0], others[1], others[2]]];
                if same_rank.len() >= 2 {
                    flops.push([same_rank[0], same_rank[1], others[0]]);
                }
                if same_rank.len() >= 3 {
                    flops.push([same_rank[0], same_rank[1], same_rank[2]]);
                }
                for f in flops {
                    let ev = FlopExhaustiveEvaluator::new(&board_opt(&f), &vec![range.clone()]);
                    let _ = ev.into_iter().count();
                    let all = all_cards();
                    let mut board5 = vec![f[0], f[1], f[2]];
                    for c in 0..52u8 {
                        if board5.len() < 5 && !board5.contains(&c) && c != ia && c != ib {
                            board5.push(c);
                        }
                    }
                    let b = [all[board5[0] as usize], all[board5[1] as usize], all[board5[2] as usize], all[board5[3] as usize], all[board5[4] as usize]];
                    let _ = espada::evaluator::Showdown::new(vec![x], b, 1.0);
                }
            }
            Err(e) => {
                let _ = format!("{:?}", e);
            }
        }
        parsed
    });
    match r {
        Ok(p) => {
            st.parsed_small += p;
            None
        }
        Err(e) => Some(("Rank/Suit/Card/CardPair::from_str and use of the parsed value".into(), format!("{} at {}", e, last_panic_loc()))),
    }
}

/// C10's validity oracle on a list of (pair, weight)
fn validity<'a, I: Iterator<Item = (&'a CardPair, &'a f32)>>(it: I) -> Option<String> {
    for (cp, w) in it {
        if cp[0] == cp[1] {
            return Some(format!("combo {} consists of the same card twice", cp));
        }
        if !(*w >= 0.0 && *w <= 1.0) {
            return Some(format!("combo {} carries weight {}", cp, w));
        }
    }
    None
}

#[derive(PartialEq, Clone, Copy)]
pub enum Mode {
    Total,
    Valid,
}

/// token + range parsers and the second stage. Returns (stage name, what happened) for the
/// first failure under the given mode.
fn big_parsers(s: &str, mode: Mode, full_eval: bool, st: &mut Stats) -> Option<(String, String)> {
    let t = s.to_string();
    let r = catch(move || {
        let mut info = (0u64, 0u64, 0u64); // tokens parsed, non-empty ranges, stage-2 operations
        let mut invalid: Option<(String, String)> = None;
        if let Ok(tok) = t.parse::<HandRangeToken>() {
            info.0 += 1;
            let _ = tok.to_string();
            let _ = format!("{:?}", tok);
            let items: Vec<(CardPair, f32)> = tok.into_iter().collect();
            info.2 += 2;
            if let Some(p) = validity(items.iter().map(|(a, b)| (a, b))) {
                invalid = Some(("token expansion".into(), p));
            }
        }
        if let Ok(range) = t.parse::<HandRange>() {
            let n = range.card_pairs().len();
            if n > 0 {
                info.1 += 1;
            }
            if let Some(p) = validity(range.card_pairs().iter()) {
                invalid.get_or_insert(("parsed range".into(), p));
            }
            let _ = range.to_string();
            let _ = range.rank_pairs();
            let _ = range.orphan_card_pairs();
            info.2 += 3;
            if n > 0 || t.is_empty() || t.len() <= 2 {
                // hand the value to the evaluator: alone, and beside a copy / a small range
                let second: HandRange = if n <= 16 { range.clone() } else { range.card_pairs().iter().take(2).map(|(a, b)| (*a, *b)).collect() };
                for players in [vec![range.clone()], vec![range.clone(), second]] {
                    let windows: Vec<(u8, u8, u8, u8)> = if full_eval && n <= 6 { vec![(0, 1, 48, 49)] } else { vec![(0, 1, 0, 4), (46, 47, 48, 49)] };
                    for w in windows {
                        let mut ev = FlopExhaustiveEvaluator::new(&board(), &players);
                        ev.scope(w.0, w.1, w.2, w.3);
                        for sd in ev {
                            info.2 += 1;
                            // C10: no card twice, probability in [0,1]
                            let mut seen = 0u64;
                            let mut dup = false;
                            for c in sd.board().iter() {
                                let b = 1u64 << idx_of(c);
                                dup |= seen & b != 0;
                                seen |= b;
                            }
                            for p in sd.players().iter() {
                                let hc = p.hole_cards();
                                for c in [hc[0], hc[1]] {
                                    let b = 1u64 << idx_of(&c);
                                    dup |= seen & b != 0;
                                    seen |= b;
                                }
                            }
                            let pr = sd.probability();
                            if dup && invalid.is_none() {
                                invalid = Some(("showdown".into(), "a showdown contains the same card twice".into()));
                            }
                            if !(pr >= 0.0 && pr <= 1.0) && invalid.is_none() {
                                invalid = Some(("showdown".into(), format!("showdown probability {}", pr)));
                            }
                        }
                    }
                }
            }
        }
        (info, invalid)
    });
    match r {
        Ok((info, invalid)) => {
            st.parsed_tokens += info.0;
            st.nonempty_ranges += info.1;
            st.stage2 += info.2;
            if mode == Mode::Valid {
                invalid
            } else {
                None
            }
        }
        Err(e) => {
            if mode == Mode::Total {
                Some(("HandRangeToken/HandRange::from_str and use of the value".into(), format!("{} at {}", e, last_panic_loc())))
            } else {
                // a panic is C09's finding, not C10's: the value was not obtained
                None
            }
        }
    }
}

fn shape_strings() -> Vec<String> {
    let rk: Vec<char> = RANK_CHARS.to_vec();
    let mut v = vec![];
    for a in &rk {
        for b in &rk {
            for so in ["", "s", "o"] {
                for plus in ["", "+"] {
                    v.push(format!("{}{}{}{}", a, b, so, plus));
                }
            }
        }
    }
    for a in &rk {
        for b in &rk {
            for c in &rk {
                for d in &rk {
                    v.push(format!("{}{}-{}{}", a, b, c, d));
                    for s1 in ["s", "o"] {
                        for s2 in ["s", "o"] {
                            v.push(format!("{}{}{}-{}{}{}", a, b, s1, c, d, s2));
                        }
                    }
                }
            }
        }
    }
    for a in 0..52u8 {
        for b in 0..52u8 {
            v.push(format!("{}{}", card_text(a), card_text(b)));
        }
    }
    v
}

fn weight_literals() -> Vec<String> {
    let mut v = vec![];
    for lead in ["0", "1"] {
        v.push(lead.to_string());
        for digits in 1..=4usize {
            for k in 0..10u32.pow(digits as u32) {
                v.push(format!("{}.{:0width$}", lead, k, width = digits));
            }
        }
    }
    // long literals
    for n in 1..=20usize {
        v.push(format!("1.{}", "0".repeat(n)));
        v.push(format!("1.{}", "9".repeat(n)));
        v.push(format!("0.{}", "9".repeat(n)));
    }
    v.push(format!("0.{}1", "0".repeat(60)));
    v.push(format!("1.{}1", "0".repeat(60)));
    v.push(format!("0.{}", "123456789".repeat(7)));
    v
}

/// the over-long inputs of a tier (the child process regenerates the same list and picks one by index)
pub fn long_inputs(thorough: bool) -> Vec<String> {
    let mut long: Vec<String> = vec![];
    let kmax = if thorough { 20 } else { 16 };
    for a in ALPHA35 {
        for k in [kmax / 2, kmax] {
            // every comma costs the library seven regex compilations: cap that symbol
            let k = if a == "," { k.min(if thorough { 14 } else { 11 }) } else { k };
            long.push(a.repeat(1 << k));
        }
    }
    long.push(vec!["A9s+:0.5"; 10_000].join(","));
    long.push(vec!["AsKs"; 10_000].join(","));
    long.push(",".repeat(10_000));
    long.push(format!("AA:0.{}", "5".repeat(100_000)));
    long.push(format!("AA:1.{}", "0".repeat(100_000)));
    // shapes a recursive-descent parser would follow: suffixes, chained spans, nested weights
    let n = 1usize << kmax;
    long.push(format!("AA{}", "+".repeat(n)));
    long.push(format!("AKs{}", "+".repeat(n)));
    long.push(format!("{}AA", "AA-".repeat(n)));
    long.push(format!("{}AQs", "AKs-".repeat(n)));
    long.push(format!("AA{}", ":0".repeat(n)));
    long.push(format!("AA:{}", "0.".repeat(n)));
    long.push(format!("{}AA", "-".repeat(n)));
    long.push(format!("As{}", "Ks".repeat(n)));
    long
}

/// child mode: parse one over-long input on a thread with a 2 MiB stack and print what happened
pub fn long_child(tier: &str, index: usize) -> i32 {
    let long = long_inputs(tier == "thorough");
    let s = long[index].clone();
    let h = std::thread::Builder::new().stack_size(2 << 20).spawn(move || {
        let mut st = Stats::default();
        small_parsers(&s, &mut st).or_else(|| big_parsers(&s, Mode::Total, false, &mut st))
    });
    let r = match h {
        Ok(h) => h.join(),
        Err(_) => return 3,
    };
    match r {
        Ok(None) => println!("{}", json!({"ok": true})),
        Ok(Some((stage, what))) => println!("{}", json!({"ok": false, "stage": stage, "what": what})),
        Err(_) => println!("{}", json!({"ok": false, "stage": "thread", "what": "the parsing thread panicked outside catch_unwind"})),
    }
    0
}

fn run_long_child(exe: &std::path::Path, tier: &str, i: usize) -> Option<(String, String)> {
    let o = std::process::Command::new(exe).arg("C09-child").arg(tier).arg(i.to_string()).env("RUST_BACKTRACE", "0").output();
    match o {
        Err(e) => Some(("harness".into(), format!("cannot spawn the child: {}", e))),
        Ok(o) => {
            let text = String::from_utf8_lossy(&o.stdout).to_string();
            let line = text.lines().rev().find(|l| l.starts_with('{')).and_then(|l| serde_json::from_str::<Value>(l).ok());
            match (o.status.success(), line) {
                (true, Some(v)) if v["ok"] == json!(true) => None,
                (true, Some(v)) => Some((v["stage"].as_str().unwrap_or("?").to_string(), v["what"].as_str().unwrap_or("?").to_string())),
                _ => {
                    let err = String::from_utf8_lossy(&o.stderr);
                    let hint = err.lines().find(|l| l.contains("overflow") || l.contains("abort") || l.contains("memory")).unwrap_or("").to_string();
                    Some(("process".into(), format!("the process parsing this input died: {:?} {}", o.status, hint)))
                }
            }
        }
    }
}

fn push_viol(rep: &mut Report, sub: &str, s: &str, stage: &str, what: &str, mode: Mode) {
    let shown: String = if s.len() > 80 { format!("{}... ({} bytes)", s.chars().take(40).collect::<String>(), s.len()) } else { s.to_string() };
    rep.violation(Violation {
        key: format!("input={:?}", shown),
        sub: sub.into(),
        case: json!({"input": s, "mode": if mode == Mode::Total { "total" } else { "valid" }}),
        expected: json!(if mode == Mode::Total { "returns normally with a value or an error; every value can be formatted, expanded, decomposed and evaluated" } else { "two different cards per combo, weight in [0,1], no card twice in a showdown, probability in [0,1]" }),
        observed: json!({"stage": stage, "what": what}),
    });
}

pub fn run(tier: &str, mode: Mode) -> i32 {
    let id = if mode == Mode::Total { "C09" } else { "C10" };
    let mut rep = Report::new(id, tier);
    let thorough = tier == "thorough";
    let deep = std::env::var("VERIF_DEEP").map(|v| v == "1").unwrap_or(false);
    // (c4b) parse histories on ONE thread: 988 distinct valid token texts, each followed at once by the same head with
    // seven weights the grammar refuses, then everything again in the same and in reverse order (a memo, cache or
    // interning table in front of a parser must neither change what a text parses to, nor let through what the parser
    // itself refuses, nor fail when it fills up). The thread runs beside the other families and is joined at the end.
    let history_thread = {
        let toks = vlib::notation::rank_pair_tokens();
        let mut seq: Vec<String> = vec![];
        for (i, t) in toks.iter().enumerate() {
            seq.push(format!("{}:0.5", t.text));
            if i % 4 == 0 {
                for bad in [":1.5", ":2", ":-0.5", ":nan", ":1e3", ":inf", ":0.5x"] {
                    seq.push(format!("{}{}", t.text, bad));
                }
            }
            seq.push(t.text.clone());
        }
        let n = seq.len();
        let mut order: Vec<usize> = (0..n).collect();
        order.extend(0..n);
        order.extend((0..n).rev());
        std::thread::spawn(move || {
            let mut st = Stats::default();
            let mut bad: Vec<(String, String, String)> = vec![];
            for &i in &order {
                st.strings += 1;
                if let Some((stage, what)) = big_parsers(&seq[i], mode, false, &mut st) {
                    bad.push((seq[i].clone(), stage, what));
                    if bad.len() >= 3 {
                        break;
                    }
                }
                // the refused spellings must stay refused, whatever was accepted before them on this thread
                if seq[i].ends_with(":1.5") || seq[i].ends_with(":2") || seq[i].ends_with(":-0.5") || seq[i].ends_with(":nan") || seq[i].ends_with(":1e3") || seq[i].ends_with(":inf") || seq[i].ends_with("x") {
                    let t = seq[i].clone();
                    let accepted = catch(move || t.parse::<HandRangeToken>().is_ok() || t.parse::<HandRange>().map(|r| !r.card_pairs().is_empty()).unwrap_or(false));
                    if accepted != Ok(false) && mode == Mode::Valid {
                        bad.push((seq[i].clone(), "history".into(), format!("a weight outside the grammar was accepted after the same head had been parsed with a valid weight: {:?}", accepted)));
                        if bad.len() >= 3 {
                            break;
                        }
                    }
                }
            }
            (bad, st.strings, n)
        })
    };


    // (a) short strings over the 35-symbol alphabet -> small parsers (C09 only)
    if mode == Mode::Total {
        let max_len = if thorough { 5 } else { 4 };
        let mut total_strings = 0u64;
        let mut st_all = Stats::default();
        for len in 0..=max_len {
            let total = (ALPHA35.len() as u64).pow(len as u32);
            let chunk = 65536u64;
            let nch = ((total + chunk - 1) / chunk) as usize;
            let outs = par_map(nch, |c| {
                let mut st = Stats::default();
                let mut bad = vec![];
                let lo = c as u64 * chunk;
                let hi = (lo + chunk).min(total);
                for i in lo..hi {
                    let s = nth_string(&ALPHA35, len, i);
                    st.strings += 1;
                    if let Some((stage, what)) = small_parsers(&s, &mut st) {
                        if bad.len() < 3 {
                            bad.push((s, stage, what));
                        }
                    }
                }
                (st, bad)
            });
            for (st, bad) in outs {
                total_strings += st.strings;
                st_all.parsed_small += st.parsed_small;
                for (s, stage, what) in bad {
                    push_viol(&mut rep, "short-strings-small-parsers", &s, &stage, &what, mode);
                }
            }
        }
        rep.sub("short-strings-small-parsers", &format!("ALL strings of 0..={} symbols over a 37-symbol alphabet (13 ranks, s h d c o, + - : . , space, 0 1, junk letters, NUL, the multi-byte characters U+00E9 (2 bytes), U+2660 (3), U+1F600 (4), and U+212A KELVIN SIGN / U+017F LONG S, whose case folding is a notation letter) parsed as Rank, Suit, Card and CardPair; distinct_nontrivial = successful parses", max_len), total_strings, st_all.parsed_small, true, json!({"max_symbols": max_len}));
        rep.sample(json!({"input": "\u{e9}", "parsers": "Rank, Suit, Card, CardPair"}));
    }

    // (b) short strings over the 15-symbol alphabet -> token and range parsers + second stage
    {
        let max_len = if deep { 6 } else if thorough { 5 } else if vlib::report::lite() { 3 } else { 4 };
        let mut st_all = Stats::default();
        for len in 0..=max_len {
            let total = (ALPHA15.len() as u64).pow(len as u32);
            let chunk = 512u64;
            let nch = ((total + chunk - 1) / chunk) as usize;
            let outs = par_map(nch, |c| {
                let mut st = Stats::default();
                let mut bad = vec![];
                let lo = c as u64 * chunk;
                let hi = (lo + chunk).min(total);
                for i in lo..hi {
                    let s = nth_string(&ALPHA15, len, i);
                    st.strings += 1;
                    if let Some((stage, what)) = big_parsers(&s, mode, false, &mut st) {
                        if bad.len() < 3 {
                            bad.push((s, stage, what));
                        }
                    }
                }
                (st, bad)
            });
            for (st, bad) in outs {
                st_all.strings += st.strings;
                st_all.parsed_tokens += st.parsed_tokens;
                st_all.nonempty_ranges += st.nonempty_ranges;
                st_all.stage2 += st.stage2;
                for (s, stage, what) in bad {
                    push_viol(&mut rep, "short-strings-range-parsers", &s, &stage, &what, mode);
                }
            }
        }
        rep.machine(st_all.nonempty_ranges.max(1), st_all.stage2.max(1), st_all.strings);
        rep.sub("short-strings-range-parsers", &format!("ALL strings of 0..={} symbols over the 21-symbol alphabet {{A,K,2,s,o,h,+,-,:,.,0,1,comma,space,tab,U+00E9,U+212A,U+017F,U+00A0,U+00A3,U+00E0}} parsed as HandRangeToken and HandRange; every value obtained is formatted, expanded, decomposed into rank pairs and leftovers, and enumerated by the evaluator alone and beside a second range on the first and last positions; distinct_nontrivial = strings that parse to a token or a non-empty range", max_len), st_all.strings, st_all.parsed_tokens + st_all.nonempty_ranges, true, json!({"max_symbols": max_len, "tokens_parsed": st_all.parsed_tokens, "non_empty_ranges": st_all.nonempty_ranges, "second_stage_operations": st_all.stage2}));
    }

    // (c) every string of the seven token shapes with arbitrary ranks, bare and with a weight
    {
        let shapes = vlib::report::thin(shape_strings(), 8);
        let step = if thorough { 1 } else { 3 };
        let chunk = 256;
        let idx: Vec<usize> = (0..shapes.len()).collect();
        let nch = (idx.len() + chunk - 1) / chunk;
        let outs = par_map(nch, |c| {
            let mut st = Stats::default();
            let mut bad = vec![];
            for i in &idx[c * chunk..((c + 1) * chunk).min(idx.len())] {
                // quick: the full shape set bare; the weighted variant for every third
                for suf in ["", ":0.5"] {
                    if !suf.is_empty() && i % step != 0 {
                        continue;
                    }
                    let s = format!("{}{}", shapes[*i], suf);
                    st.strings += 1;
                    if let Some((stage, what)) = big_parsers(&s, mode, thorough, &mut st) {
                        if bad.len() < 3 {
                            bad.push((s, stage, what));
                        }
                    }
                }
            }
            (st, bad)
        });
        let mut st_all = Stats::default();
        for (st, bad) in outs {
            st_all.strings += st.strings;
            st_all.parsed_tokens += st.parsed_tokens;
            st_all.nonempty_ranges += st.nonempty_ranges;
            st_all.stage2 += st.stage2;
            for (s, stage, what) in bad {
                push_viol(&mut rep, "token-shapes", &s, &stage, &what, mode);
            }
        }
        rep.machine(st_all.nonempty_ranges.max(1), st_all.stage2.max(1), st_all.strings);
        rep.sub("token-shapes", "EVERY string of the seven token shapes with arbitrary ranks: 169 x {none,s,o} x {none,+}; all 13^4 'XY-ZW'; all 13^4 x 4 'XY[so]-ZW[so]'; all 52^2 card-pair shapes (146,523 strings), bare and (all in thorough, every third in quick) with ':0.5', through the token and range parsers and the second stage; distinct_nontrivial = strings that parse", st_all.strings, st_all.parsed_tokens.max(st_all.nonempty_ranges), true, json!({"shape_strings": shapes.len(), "tokens_parsed": st_all.parsed_tokens, "non_empty_ranges": st_all.nonempty_ranges, "second_stage_operations": st_all.stage2}));
        rep.sample(json!({"inputs": ["22-AA", "KAs+", "2As+", "AsAs", "AKs-AQo"]}));
    }

    // (c2) letter-case variants of the token shapes: every single letter flipped, and all letters flipped
    {
        let shapes = shape_strings();
        let mut variants: Vec<String> = vec![];
        for (i, sh) in shapes.iter().enumerate() {
            // all card-pair shapes and the 1014 short shapes completely; every 40th of the span shapes
            let short = sh.len() <= 4;
            if !short && i % 40 != 0 {
                continue;
            }
            let chars: Vec<char> = sh.chars().collect();
            let flip = |c: char| if c.is_ascii_uppercase() { c.to_ascii_lowercase() } else { c.to_ascii_uppercase() };
            for k in 0..chars.len() {
                if chars[k].is_ascii_alphabetic() {
                    let mut v = chars.clone();
                    v[k] = flip(v[k]);
                    variants.push(v.iter().collect());
                }
            }
            variants.push(chars.iter().map(|c| flip(*c)).collect());
        }
        variants.sort();
        variants.dedup();
        let chunk = 256;
        let variants = vlib::report::thin(variants, 8);
        let nch = (variants.len() + chunk - 1) / chunk;
        let outs = par_map(nch, |c| {
            let mut st = Stats::default();
            let mut bad = vec![];
            for s in &variants[c * chunk..((c + 1) * chunk).min(variants.len())] {
                st.strings += 1;
                if let Some((stage, what)) = small_parsers(s, &mut st).filter(|_| mode == Mode::Total).or_else(|| big_parsers(s, mode, false, &mut st)) {
                    if bad.len() < 3 {
                        bad.push((s.clone(), stage, what));
                    }
                }
            }
            (st, bad)
        });
        let mut st_all = Stats::default();
        for (st, bad) in outs {
            st_all.strings += st.strings;
            st_all.parsed_tokens += st.parsed_tokens;
            st_all.nonempty_ranges += st.nonempty_ranges;
            for (s, stage, what) in bad {
                push_viol(&mut rep, "case-variants", &s, &stage, &what, mode);
            }
        }
        rep.sub("case-variants", "letter-case variants of the token shapes (all 2,704 card-pair shapes and the 1,014 short shapes, every 40th span shape): each single letter flipped and all letters flipped, e.g. 'AsAS', 'aKs', 'AKS+'; distinct_nontrivial = variants that parse (none on the pinned grammar)", st_all.strings, st_all.parsed_tokens + st_all.nonempty_ranges, false, json!({"variants": variants.len()}));
    }

    // (c2b) one-edit mutations of the token shapes: a character deleted, doubled, or two neighbours swapped
    {
        let shapes = shape_strings();
        let mut variants: Vec<String> = vec![];
        for (i, sh) in shapes.iter().enumerate() {
            let short = sh.len() <= 4;
            if !short && i % (if thorough { 8 } else { 48 }) != 0 {
                continue;
            }
            for suf in ["", ":0.5"] {
                let chars: Vec<char> = format!("{}{}", sh, suf).chars().collect();
                for k in 0..chars.len() {
                    let mut v = chars.clone();
                    v.remove(k);
                    variants.push(v.iter().collect());
                    let mut v = chars.clone();
                    v.insert(k, chars[k]);
                    variants.push(v.iter().collect());
                    if k + 1 < chars.len() {
                        let mut v = chars.clone();
                        v.swap(k, k + 1);
                        variants.push(v.iter().collect());
                    }
                }
            }
        }
        variants.sort();
        variants.dedup();
        let chunk = 256;
        let variants = vlib::report::thin(variants, 8);
        let nch = (variants.len() + chunk - 1) / chunk;
        let outs = par_map(nch, |c| {
            let mut st = Stats::default();
            let mut bad = vec![];
            for s in &variants[c * chunk..((c + 1) * chunk).min(variants.len())] {
                st.strings += 1;
                if let Some((stage, what)) = big_parsers(s, mode, false, &mut st) {
                    if bad.len() < 3 {
                        bad.push((s.clone(), stage, what));
                    }
                }
            }
            (st, bad)
        });
        let mut st_all = Stats::default();
        for (st, bad) in outs {
            st_all.strings += st.strings;
            st_all.parsed_tokens += st.parsed_tokens;
            st_all.nonempty_ranges += st.nonempty_ranges;
            for (s, stage, what) in bad {
                push_viol(&mut rep, "shape-mutations", &s, &stage, &what, mode);
            }
        }
        rep.sub("shape-mutations", "one-edit mutations of the token shapes, bare and with ':0.5' (all short and card-pair shapes, every 48th span shape in quick / 8th in thorough): each character deleted, each doubled, each adjacent pair swapped - e.g. 'AKs-AQ', 'AKss', 'AK-sAQs', 'AKs:.05'; distinct_nontrivial = mutations that still parse", st_all.strings, st_all.parsed_tokens + st_all.nonempty_ranges, false, json!({"mutations": variants.len()}));
    }

    // (c3) junk around and inside the weight; weight spellings f32::from_str would accept but the notation does not
    {
        let heads = ["TT-88", "AQs-A9s", "KJo-K9o", "99+", "A9s+", "44", "JTs", "72o", "AsKs", "KsAs"];
        let weights = ["0", "1", "0.5", "1.0", "0.25"];
        let junk: Vec<&str> = ALPHA15.iter().cloned().chain(["x", "e", "E", "_", "/", ";", "'", "\"", "\n", "\r", "5", "9", "\u{663}", "\u{ff13}", "\u{969}", "\u{b2}"].into_iter()).collect();
        let mut strings: Vec<String> = vec![];
        for h in heads {
            for w in weights {
                for j in &junk {
                    strings.push(format!("{}:{}{}", h, w, j));
                    strings.push(format!("{}:{}{}", h, j, w));
                    strings.push(format!("{}{}:{}", h, j, w));
                    strings.push(format!("{}{}:{}", j, h, w));
                    if w.len() > 1 {
                        strings.push(format!("{}:{}{}{}", h, &w[..1], j, &w[1..]));
                    }
                }
                strings.push(format!("{}:{}:{}", h, w, w));
            }
            // every weight text of up to four characters over {0 1 5 . - e} (and five over {0 1 5 .})
            // (one head per token regex is enough for this one)
            for len in 1..=5usize {
                if ["KJo-K9o", "72o", "KsAs"].contains(&h) {
                    break;
                }
                let alpha: &[&str] = if len <= 4 { &["0", "1", "5", ".", "-", "e"] } else { &["0", "1", "5", "."] };
                let total = (alpha.len() as u64).pow(len as u32);
                for i in 0..total {
                    strings.push(format!("{}:{}", h, nth_string(alpha, len, i)));
                }
            }
            for odd in ["-0.5", "+0.5", "-1", "-0", "-0.0", "+1", "1e0", "1e-1", "5e-1", "1E0", ".5", "0.", "1.", "inf", "-inf", "nan", "NaN", "infinity", "0x1", "1_0", "00", "01", "00.5", "1.5", "2", "10", "0.5f", "0,5", "½", "٠", "０",
                // literals above 1 with 9, 10, 12, 19, 20 and 39 fraction digits (an exact-fraction comparison in u32 / u64 / u128
                // wraps there in a release build), and just below / at 1 with as many
                "1.000000001", "1.8000000000", "1.0000000001", "1.100000000000", "1.9999999999999999999", "1.80000000000000000000", "1.000000000000000000000000000000000000001", "1.5000000000", "0.99999999999999999999", "1.00000000000000000000"] {
                strings.push(format!("{}:{}", h, odd));
            }
        }
        let chunk = 128;
        let nch = (strings.len() + chunk - 1) / chunk;
        let outs = par_map(nch, |c| {
            let mut st = Stats::default();
            let mut bad = vec![];
            for s in &strings[c * chunk..((c + 1) * chunk).min(strings.len())] {
                st.strings += 1;
                if let Some((stage, what)) = big_parsers(s, mode, false, &mut st) {
                    if bad.len() < 3 {
                        bad.push((s.clone(), stage, what));
                    }
                }
            }
            (st, bad)
        });
        let mut st_all = Stats::default();
        for (st, bad) in outs {
            st_all.strings += st.strings;
            st_all.parsed_tokens += st.parsed_tokens;
            for (s, stage, what) in bad {
                push_viol(&mut rep, "weight-junk", &s, &stage, &what, mode);
            }
        }
        rep.sub("weight-junk", "ten token heads x five weights x one junk symbol (alphabet plus x e E _ / ; quotes CR LF) after, before and inside the weight, before the colon and before the head; doubled weights; every weight text of <= 4 characters over {0,1,5,.,-,e} and of 5 over {0,1,5,.}; and 41 weight spellings, most of which a float parser accepts but the notation does not (signs, exponents, .5, inf, nan, 1.5, unicode digits, literals above 1 with 9 to 39 fraction digits); distinct_nontrivial = strings accepted as a token", st_all.strings, st_all.parsed_tokens, false, json!({}));
    }

    // (c4) longer strings with a multi-byte character straddling every small byte offset
    if mode == Mode::Total {
        let mut strings: Vec<String> = vec![];
        for p in 0..=9usize {
            for mb in ["\u{e9}", "\u{2660}", "\u{1F600}"] {
                for n in [1usize, 2, 3, 4, 5, 6, 8, 11, 16, 17, 22, 33] {
                    strings.push(format!("{}{}", "A".repeat(p), mb.repeat(n)));
                    strings.push(format!("{}{}{}", "As".repeat(p), mb.repeat(n), "Ks"));
                    strings.push(format!("{},{}", "AA".repeat(1), format!("{}{}", "K".repeat(p), mb.repeat(n))));
                }
            }
        }
        let outs = par_map(strings.len(), |i| {
            let mut st = Stats::default();
            small_parsers(&strings[i], &mut st).or_else(|| big_parsers(&strings[i], mode, false, &mut st))
        });
        for (i, o) in outs.into_iter().enumerate() {
            if let Some((stage, what)) = o {
                push_viol(&mut rep, "straddling-bytes", &strings[i], &stage, &what, mode);
            }
        }
        rep.sub("straddling-bytes", "an ASCII prefix of 0..=9 characters followed by 1..33 copies of a 2-, 3- or 4-byte character (alone, wrapped in cards, as a list item): a multi-byte character straddles every byte offset up to 40 and every power of two up to 128, through all six parsers", strings.len() as u64, strings.len() as u64, false, json!({}));
    }

    // (c5) code points that text-handling code likes to treat specially (byte order mark, the Unicode spaces,
    // zero-width and direction marks, line separators, ASCII controls, full-width forms, characters whose case
    // mapping changes their length or lands on an ASCII letter - U+212A KELVIN SIGN lowercases to 'k', U+017F
    // LONG S uppercases to 'S'), put before, after, around and at every character boundary of texts that are
    // valid or one step from valid, and substituted for each of their characters
    {
        let cps: Vec<String> = [
            0xFEFFu32, 0xA0, 0x2003, 0x3000, 0x200B, 0x200D, 0x200E, 0x202E, 0x2028, 0x2029, 0x85, 0x0, 0x7F, 0x9, 0xA, 0xD, 0xB, 0xC, 0x1F, 0xFF21, 0xFF33, 0xFF10, 0xFF11, 0xFF0C, 0xFF1A, 0xFF0B, 0xFF0D, 0x2212,
            0x2010, 0x2013, 0x301, 0x130, 0xDF, 0x212A, 0x17F, 0x1E9E, 0xFB06, 0xD7FF, 0xE000, 0xFFFD, 0xFFFE, 0x10FFFF,
        ]
        .iter()
        .cloned()
        // ... and every ASCII punctuation character (the regex metacharacters ( ) [ ] { } | * ? \ ^ $ among them: a text
        // that finds its way INTO a pattern must not be able to break it)
        .chain((0x21u32..=0x2F).chain(0x3A..=0x40).chain(0x5B..=0x60).chain(0x7B..=0x7E))
        .collect::<Vec<u32>>()
        .iter()
        .filter_map(|c| char::from_u32(*c))
        .map(|c| c.to_string())
        .collect();
        let bases = ["", "AA", "AA,KK", "AKs", "A9s+:0.5", "TT-88", "AsKs", "As", "A", "s", "AAs", "AsAs", "AA:1.5", "22-AA", "KK:0", "KsAs:1", "AKs-AQs", "KJo-K9o:0.5", "AKs-AQs,TT+"];
        let mut set = std::collections::BTreeSet::new();
        for cp in &cps {
            for b in bases {
                set.insert(format!("{}{}", cp, b));
                set.insert(format!("{}{}", b, cp));
                set.insert(format!("{}{}{}", cp, b, cp));
                set.insert(format!("{}{}{}", cp, cp, b));
                let chars: Vec<char> = b.chars().collect();
                for i in 0..chars.len() {
                    let pre: String = chars[..i].iter().collect();
                    let post: String = chars[i..].iter().collect();
                    let post1: String = chars[i + 1..].iter().collect();
                    set.insert(format!("{}{}{}", pre, cp, post));
                    set.insert(format!("{}{}{}", pre, cp, post1));
                }
            }
        }
        let strings: Vec<String> = set.into_iter().collect();
        let outs = par_map(strings.len(), |i| {
            let mut st = Stats::default();
            let r = if mode == Mode::Total { small_parsers(&strings[i], &mut st) } else { None };
            (r.or_else(|| big_parsers(&strings[i], mode, false, &mut st)), st.parsed_tokens + st.nonempty_ranges + st.parsed_small)
        });
        let mut accepted = 0u64;
        for (i, (o, acc)) in outs.into_iter().enumerate() {
            if acc > 0 {
                accepted += 1;
            }
            if let Some((stage, what)) = o {
                push_viol(&mut rep, "special-code-points", &strings[i], &stage, &what, mode);
            }
        }
        rep.sub("special-code-points", "74 characters that text handling treats specially (all 32 ASCII punctuation characters incl. the regex metacharacters; BOM, Unicode spaces, zero-width and direction marks, line separators, ASCII controls, full-width forms, characters whose case mapping changes length or lands on an ASCII letter, the ends of the scalar ranges) before, after, around, doubled before, inserted at every character boundary of and substituted for every character of 19 texts that are valid or one step from valid; distinct_nontrivial = strings some parser accepted", strings.len() as u64, accepted, false, json!({"code_points": cps.len(), "bases": bases.len()}));
    }

    if mode == Mode::Total {
        // (d) over-long inputs, each in a child process on a thread with an ordinary 2 MiB stack: recursion that
        // follows the input's length overflows the stack there, and that kills the process - which this harness's
        // own 1 GiB worker stacks would hide, and which no catch_unwind can observe
        let long = long_inputs(thorough);
        let exe = std::env::current_exe().expect("current_exe");
        let outs = par_map(long.len(), |i| run_long_child(&exe, tier, i));
        for (i, o) in outs.into_iter().enumerate() {
            if let Some((stage, what)) = o {
                let s = &long[i];
                let shown: String = format!("{}... ({} bytes)", s.chars().take(40).collect::<String>(), s.len());
                rep.violation(Violation {
                    key: format!("input={:?}", shown),
                    sub: "over-long".into(),
                    case: json!({"long_index": i, "tier": tier, "mode": "total", "input_bytes": s.len()}),
                    expected: json!("returns normally with a value or an error, on a thread with an ordinary (2 MiB) stack"),
                    observed: json!({"stage": stage, "what": what}),
                });
            }
        }
        let kmax = if thorough { 20 } else { 16 };
        rep.sub("over-long", &format!("each alphabet symbol repeated 2^{} and 2^{} times; a valid token repeated 10^4 times; 10^4 commas; weight literals with 10^5 digits; a token followed by 2^{} '+' signs, spans chained 2^{} times with '-', 2^{} colons; each input in its own child process on a 2 MiB stack (a stack overflow or any other death of the process is a violation)", kmax / 2, kmax, kmax, kmax, kmax), long.len() as u64, long.len() as u64, false, json!({}));
        rep.bound("strings longer than the enumeration bound are covered only by the shape family and the over-long family; 'all strings over Unicode' is infinite and the claim is for these bounds");
    }

    {
        // the weight grammar, exhaustively to four decimals, on one token of each shape
        // (C09: must not panic; C10: must stay in [0,1])
        let lits = weight_literals();
        let heads = ["TT-88", "AQs-A9s", "KJo-K9o", "99+", "A9s+", "44", "JTs", "72o", "AsKs", "KsAs"];
        let chunk = 64;
        let nch = (lits.len() + chunk - 1) / chunk;
        let outs = par_map(nch, |c| {
            let mut st = Stats::default();
            let mut bad = vec![];
            let mut accepted = 0u64;
            for l in &lits[c * chunk..((c + 1) * chunk).min(lits.len())] {
                for (hi, h) in heads.iter().enumerate() {
                    // quick: four-decimal literals behind two token heads only
                    if !thorough && l.len() == 6 && hi != 5 && hi != 8 {
                        continue;
                    }
                    let s = format!("{}:{}", h, l);
                    st.strings += 1;
                    let before = st.parsed_tokens;
                    if let Some((stage, what)) = big_parsers(&s, mode, false, &mut st) {
                        if bad.len() < 3 {
                            bad.push((s, stage, what));
                        }
                    }
                    if st.parsed_tokens > before {
                        accepted += 1;
                    }
                }
            }
            (st, bad, accepted)
        });
        let mut n = 0u64;
        let mut acc = 0u64;
        for (st, bad, a) in outs {
            n += st.strings;
            acc += a;
            for (s, stage, what) in bad {
                push_viol(&mut rep, "weight-grammar", &s, &stage, &what, mode);
            }
        }
        rep.sub("weight-grammar", "every literal of [01](.[0-9]{1,4})? (22,222) plus 63 long literals (1.000.., 1.999.., 0.999.., 60-digit fractions) behind one token of each shape (quick: the 20,000 four-decimal literals behind two of the ten heads only); literals the grammar rejects do not parse and are outside the property; distinct_nontrivial = texts accepted as a token", n, acc, thorough, json!({"literals": lits.len(), "token_heads": heads}));
        rep.sample(json!({"input": "AA:1.5"}));
        rep.sample(json!({"input": "AsAs"}));
    }

    if mode == Mode::Valid {
        // showdowns from lists of parsed ranges (full enumeration, 3 flops)
        let texts = ["AsKs,AsQd:0.5", "AA,AKs:0.5", "KsAs,KK:0.25", "A2s+:0.5", "AsAh,AsAd", "QQ+,AsKs:0"];
        let flops = [[8u8, 26, 49], [0, 1, 2], [0, 4, 51]];
        let mut lists: Vec<Vec<usize>> = vec![];
        for a in 0..texts.len() {
            lists.push(vec![a]);
            for b in 0..texts.len() {
                lists.push(vec![a, b]);
                if a < 3 && b < 3 {
                    for c in 0..3 {
                        lists.push(vec![a, b, c]);
                    }
                }
            }
        }
        let jobs: Vec<(usize, usize)> = (0..lists.len()).flat_map(|l| (0..flops.len()).map(move |f| (l, f))).collect();
        let outs = par_map(jobs.len(), |j| {
            let (l, f) = jobs[j];
            let ts: Vec<&str> = lists[l].iter().map(|i| texts[*i]).collect();
            let flop = flops[f];
            let r = catch(move || {
                let ranges: Vec<HandRange> = ts.iter().map(|t| t.parse().unwrap()).collect();
                let mut n = 0u64;
                for sd in FlopExhaustiveEvaluator::new(&board_opt(&flop), &ranges) {
                    n += 1;
                    let mut seen = 0u64;
                    for c in sd.board().iter() {
                        let b = 1u64 << idx_of(c);
                        if seen & b != 0 {
                            return Err("a showdown contains the same card twice".to_string());
                        }
                        seen |= b;
                    }
                    for p in sd.players().iter() {
                        let hc = p.hole_cards();
                        for c in [hc[0], hc[1]] {
                            let b = 1u64 << idx_of(&c);
                            if seen & b != 0 {
                                return Err(format!("a showdown contains {} twice", c));
                            }
                            seen |= b;
                        }
                    }
                    let pr = sd.probability();
                    if !(pr >= 0.0 && pr <= 1.0) {
                        return Err(format!("showdown probability {}", pr));
                    }
                }
                Ok(n)
            });
            match r {
                Ok(Ok(n)) => (None, n),
                Ok(Err(e)) => (Some(e), 0),
                Err(_) => (None, 0), // a panic is C09's / C08's finding
            }
        });
        let mut sds = 0u64;
        for (j, (bad, n)) in outs.into_iter().enumerate() {
            sds += n;
            if let Some(e) = bad {
                let (l, f) = jobs[j];
                let ts: Vec<&str> = lists[l].iter().map(|i| texts[*i]).collect();
                rep.violation(Violation { key: format!("flop={} ranges={:?}", cards_text(&flops[f]), ts), sub: "showdowns".into(), case: json!({"flop": flops[f].to_vec(), "texts": ts}), expected: json!("5+2n distinct cards, probability in [0,1]"), observed: json!(e) });
            }
        }
        rep.machine(sds.max(1), sds.max(1), jobs.len() as u64);
        rep.sub("showdowns", "all lists of 1 and 2 (and 27 lists of 3) out of six parsed overlapping ranges on 3 flops, enumerated completely: every showdown holds 5+2n different cards and a probability in [0,1]; distinct_nontrivial = showdowns inspected", jobs.len() as u64, sds, false, json!({"showdowns": sds}));
    }
    rep.assume("a caught panic is the observation 'did not return normally'; allocation failure cannot be caught and would abort the check (machinery exit)");
    // parsing while the thread is shutting down: a value with a destructor is put into the thread's local storage BEFORE
    // the first parse (destructors run last-registered-first), the thread parses, and at thread exit the destructor
    // parses again - every parser must still return a value or an error (no "TLS value accessed after destruction")
    if mode == Mode::Total {
        struct AtExit(std::sync::mpsc::Sender<Result<(), String>>);
        impl Drop for AtExit {
            fn drop(&mut self) {
                let r = catch(|| {
                    let _ = "AKs:0.5".parse::<HandRangeToken>();
                    let _ = "QQ+,AsKs".parse::<HandRange>().map(|r| r.to_string());
                    let _ = "As".parse::<espada::card::Card>();
                    let _ = "AsKs".parse::<espada::hand_range::CardPair>();
                    let _ = "A".parse::<Rank>();
                    let _ = "s".parse::<espada::card::Suit>();
                });
                let _ = self.0.send(r);
            }
        }
        thread_local! {
            static AT_EXIT: std::cell::RefCell<Option<AtExit>> = std::cell::RefCell::new(None);
        }
        let (tx, rx) = std::sync::mpsc::channel();
        let h = std::thread::spawn(move || {
            AT_EXIT.with(|c| *c.borrow_mut() = Some(AtExit(tx)));
            let _ = "TT-88:0.25".parse::<HandRangeToken>();
            let _ = "22+".parse::<HandRange>().map(|r| (r.to_string(), r.rank_pairs().len()));
            let _ = "KdKc".parse::<espada::hand_range::CardPair>();
        });
        let _ = h.join();
        match rx.recv_timeout(std::time::Duration::from_secs(30)) {
            Ok(Ok(())) => {}
            Ok(Err(e)) => push_viol(&mut rep, "thread-exit", "AKs:0.5 / QQ+,AsKs / As / AsKs / A / s parsed in a thread-local destructor", "parse at thread exit", &e, mode),
            Err(_) => push_viol(&mut rep, "thread-exit", "parsers called in a thread-local destructor", "parse at thread exit", "the destructor did not report (the thread died while shutting down)", mode),
        }
        rep.sub("thread-exit", "a thread registers a thread-local value with a destructor before its first parse, parses a token, a range and a card pair, and at thread exit the destructor calls all six parsers again under catch_unwind: they return normally", 1, 1, true, json!({}));
    }
    {
        let (bad, strings, n) = history_thread.join().unwrap_or((vec![("thread".into(), "history".into(), "the history thread died".into())], 0, 0));
        for (s2, stage, what) in bad {
            push_viol(&mut rep, "parse-histories", &s2, &stage, &what, mode);
        }
        rep.sub("parse-histories", "one thread parsing 988 distinct token texts (each with and without a weight; every fourth also with seven weights outside the grammar right after the valid one), then the whole sequence again and then in reverse: no parse panics, every parsed value is valid, and a refused weight stays refused after its head was accepted", strings, strings, false, json!({"sequence": n}));
    }
    rep.finish()
}

pub fn replay(case: &Value) -> Value {
    if let Some(i) = case.get("long_index").and_then(|x| x.as_u64()) {
        let tier = case["tier"].as_str().unwrap_or("quick");
        let exe = std::env::current_exe().expect("current_exe");
        return json!({"long_index": i, "input_bytes": case["input_bytes"], "in_a_child_process_on_a_2MiB_stack": format!("{:?}", run_long_child(&exe, tier, i as usize))});
    }
    let s = case["input"].as_str().unwrap_or("").to_string();
    let mode = if case["mode"].as_str() == Some("valid") { Mode::Valid } else { Mode::Total };
    let mut st = Stats::default();
    let a = small_parsers(&s, &mut st);
    let b = big_parsers(&s, mode, true, &mut st);
    json!({"input_bytes": s.len(), "small_parsers": format!("{:?}", a), "range_parsers_and_use": format!("{:?}", b)})
}
