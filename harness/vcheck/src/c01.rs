//! C01 (power index = true strength class, any order) and C07 (reported category).
//! Complete sweep over all C(52,7) seven-card sets against M-rank.

use espada::card::Card;
use espada::evaluator::MadeHand;
use serde_json::{json, Value};
use vlib::cards::{all_cards, cards_text, relabel, suit_perms};
use vlib::mrank::{MRank, CATEGORY_NAMES, SEVEN_CARD_HISTOGRAM};
use vlib::par::par_map;
use vlib::report::{catch, Report, Violation};

fn eval(cards: [Card; 7]) -> Result<u16, String> {
    catch(move || MadeHand::from(cards).power_index())
}

fn arr(all: &[Card; 52], idx: &[u8; 7]) -> [Card; 7] {
    [
        all[idx[0] as usize],
        all[idx[1] as usize],
        all[idx[2] as usize],
        all[idx[3] as usize],
        all[idx[4] as usize],
        all[idx[5] as usize],
        all[idx[6] as usize],
    ]
}

/// the 14 structured orders: 7 rotations of the ascending order, each forward and reversed
fn structured_orders() -> Vec<[u8; 7]> {
    let mut v = vec![];
    for rot in 0..7u8 {
        let mut f = [0u8; 7];
        for i in 0..7u8 {
            f[i as usize] = (i + rot) % 7;
        }
        v.push(f);
        let mut r = f;
        r.reverse();
        v.push(r);
    }
    v
}

fn all_perms7() -> Vec<[u8; 7]> {
    let mut out = Vec::with_capacity(5040);
    let mut a = [0u8, 1, 2, 3, 4, 5, 6];
    fn heap(k: usize, a: &mut [u8; 7], out: &mut Vec<[u8; 7]>) {
        if k == 1 {
            out.push(*a);
            return;
        }
        heap(k - 1, a, out);
        for i in 0..k - 1 {
            if k % 2 == 0 {
                a.swap(i, k - 1);
            } else {
                a.swap(0, k - 1);
            }
            heap(k - 1, a, out);
        }
    }
    heap(7, &mut a, &mut out);
    out
}

/// work items: first two cards of the ascending set
fn items() -> Vec<(u8, u8)> {
    let mut v = vec![];
    for a in 0..52u8 {
        for b in (a + 1)..52u8 {
            if b <= 46 {
                v.push((a, b));
            }
        }
    }
    v
}

fn for_each_set<F: FnMut(&[u8; 7])>(a: u8, b: u8, mut f: F) {
    for c in (b + 1)..52 {
        for d in (c + 1)..52 {
            for e in (d + 1)..52 {
                for g in (e + 1)..52 {
                    for h in (g + 1)..52 {
                        f(&[a, b, c, d, e, g, h]);
                    }
                }
            }
        }
    }
}

struct SweepOut {
    sets: u64,
    evals: u64,
    hist: [u64; 9],
    /// first witness set per reached class (by oracle class)
    witness: Vec<Option<[u8; 7]>>,
    bad: Vec<Violation>,
    bad_total: u64,
}

fn is_canonical(set: &[u8; 7], perms: &[[u8; 4]]) -> bool {
    for p in perms {
        let mut r = [0u8; 7];
        for i in 0..7 {
            r[i] = relabel(set[i], p);
        }
        r.sort_unstable();
        if r < *set {
            return false;
        }
    }
    true
}

pub fn run_c01(tier: &str) -> i32 {
    let mut rep = Report::new("C01", tier);
    let thorough = tier == "thorough";
    let deep = std::env::var("VERIF_DEEP").map(|v| v == "1").unwrap_or(false);
    let m = MRank::build();
    let all = all_cards();
    let its = items();
    let orders = structured_orders();
    let perms7 = all_perms7();
    let sperms = suit_perms();

    // (0) fail fast: all C(12,7) = 792 sets of a twelve-card sub-deck x 14 orders, twice over, sequentially on this
    // thread (repeats of the same cards in close succession included). A tree that is wrong - or has become so slow
    // that the full sweep would run into the wall cap - is reported from here within a second.
    {
        let sub: [u8; 12] = [0, 4, 8, 12, 16, 20, 24, 1, 5, 2, 6, 51];
        let mut bad: Vec<Violation> = vec![];
        let mut n = 0u64;
        for _round in 0..2 {
            for mask in 0u32..(1 << 12) {
                if mask.count_ones() != 7 {
                    continue;
                }
                let mut set = [0u8; 7];
                let mut k = 0;
                for (i, c) in sub.iter().enumerate() {
                    if mask & (1 << i) != 0 {
                        set[k] = *c;
                        k += 1;
                    }
                }
                set.sort_unstable();
                let expected = m.class7_sorted(&set);
                for ord in orders.iter() {
                    let mut p = [0u8; 7];
                    for i in 0..7 {
                        p[i] = set[ord[i] as usize];
                    }
                    n += 1;
                    let got = eval(arr(&all, &p));
                    if got != Ok(expected) && bad.len() < 5 {
                        bad.push(Violation {
                            key: format!("cards={}", cards_text(&p)),
                            sub: "fail-fast".into(),
                            case: json!({"cards": p.to_vec(), "text": cards_text(&p)}),
                            expected: json!({"class": expected, "category": CATEGORY_NAMES[m.category_of_class(expected)]}),
                            observed: match got { Ok(v) => json!({"power_index": v}), Err(e) => json!({"panic": e}) },
                        });
                    }
                }
            }
        }
        rep.sub("fail-fast", "all 792 seven-card sets of a twelve-card sub-deck (seven spades A..8, Ah Kh Ad Kd, 2c) x 14 structured orders, the whole pass twice, sequentially on one thread, before the full sweep starts", n, 792, true, json!({}));
        if !bad.is_empty() {
            for v in bad {
                rep.violation(v);
            }
            rep.bound("the full sweep was not started: the fail-fast pass already found violations");
            return rep.finish();
        }
    }

    // (a)+(b): every set, ascending order vs M-rank; 13 further structured orders vs ascending
    let outs = par_map(its.len(), |k| {
        let (a, b) = its[k];
        let mut o = SweepOut {
            sets: 0,
            evals: 0,
            hist: [0; 9],
            witness: vec![None; 7463],
            bad: vec![],
            bad_total: 0,
        };
        for_each_set(a, b, |set| {
            o.sets += 1;
            let expected = m.class7_sorted(set);
            o.hist[m.category_of_class(expected)] += 1;
            if o.witness[expected as usize].is_none() {
                o.witness[expected as usize] = Some(*set);
            }
            for (oi, ord) in orders.iter().enumerate() {
                let mut p = [0u8; 7];
                for i in 0..7 {
                    p[i] = set[ord[i] as usize];
                }
                let got = eval(arr(&all, &p));
                o.evals += 1;
                if got != Ok(expected) {
                    o.bad_total += 1;
                    if o.bad.len() < 5 {
                        o.bad.push(Violation {
                            key: format!("cards={}", cards_text(&p)),
                            sub: if oi == 0 { "sets-ascending".into() } else { "orders-structured".into() },
                            case: json!({"cards": p.to_vec(), "text": cards_text(&p)}),
                            expected: json!({"class": expected, "category": CATEGORY_NAMES[m.category_of_class(expected)]}),
                            observed: match got { Ok(v) => json!({"power_index": v}), Err(e) => json!({"panic": e}) },
                        });
                    }
                }
            }
        });
        o
    });
    let mut sets = 0u64;
    let mut evals = 0u64;
    let mut hist = [0u64; 9];
    let mut witness: Vec<Option<[u8; 7]>> = vec![None; 7463];
    for o in outs {
        sets += o.sets;
        evals += o.evals;
        for i in 0..9 {
            hist[i] += o.hist[i];
        }
        for c in 0..7463 {
            if witness[c].is_none() {
                witness[c] = o.witness[c];
            }
        }
        let extra = o.bad_total - o.bad.len() as u64;
        for v in o.bad {
            rep.violation(v);
        }
        rep.violations_total += extra;
    }
    let reached = witness.iter().filter(|w| w.is_some()).count() as u64;
    // checks on the ORACLE (machinery errors, not verdicts)
    assert_eq!(sets, 133_784_560, "enumeration is not complete");
    assert_eq!(hist, SEVEN_CARD_HISTOGRAM, "M-rank seven-card histogram differs from the published one");
    assert_eq!(reached, 4824, "M-rank reaches a different number of classes than 4824");
    rep.sub(
        "sets-x-14-orders",
        "every 7-card set (C(52,7), ascending card order) evaluated by MadeHand::from and compared with the M-rank class (best of 21 five-card subsets, classes numbered from the rules); each set additionally in 13 more orders (7 rotations x forward/reversed). distinct_nontrivial = number of distinct sets",
        evals,
        sets,
        true,
        json!({"sets": sets, "orders_per_set": 14, "classes_reached": reached, "oracle_histogram_HighCard_to_StraightFlush": hist.to_vec()}),
    );
    for c in [1usize, 10, 11, 166, 167, 322, 323, 1599, 1600, 1609, 1610, 7462] {
        if let Some(w) = witness[c] {
            rep.sample(json!({"cards": cards_text(&w), "class": c}));
        }
    }

    // (c) all 5040 orders on one representative per suit-isomorphism class
    let do_perm = thorough;
    if do_perm {
        let outs = par_map(its.len(), |k| {
            let (a, b) = its[k];
            let mut reps = 0u64;
            let mut ev = 0u64;
            let mut bad: Vec<Violation> = vec![];
            let mut bad_total = 0u64;
            for_each_set(a, b, |set| {
                if !deep && !is_canonical(set, &sperms) {
                    return;
                }
                // relabelling cycles with the running representative count so that every labelling is used
                let lab = &sperms[(reps % 24) as usize];
                reps += 1;
                let mut s = [0u8; 7];
                for i in 0..7 {
                    s[i] = relabel(set[i], lab);
                }
                let expected = m.class7(&s);
                for ord in perms7.iter() {
                    let mut p = [0u8; 7];
                    for i in 0..7 {
                        p[i] = s[ord[i] as usize];
                    }
                    let got = eval(arr(&all, &p));
                    ev += 1;
                    if got != Ok(expected) {
                        bad_total += 1;
                        if bad.len() < 3 {
                            bad.push(Violation {
                                key: format!("cards={}", cards_text(&p)),
                                sub: "orders-all-5040".into(),
                                case: json!({"cards": p.to_vec(), "text": cards_text(&p)}),
                                expected: json!({"class": expected}),
                                observed: match got { Ok(v) => json!({"power_index": v}), Err(e) => json!({"panic": e}) },
                            });
                        }
                    }
                }
            });
            (reps, ev, bad, bad_total)
        });
        let mut reps = 0u64;
        let mut ev = 0u64;
        for (r, e, bad, bt) in outs {
            reps += r;
            ev += e;
            let extra = bt - bad.len() as u64;
            for v in bad {
                rep.violation(v);
            }
            rep.violations_total += extra;
        }
        if !deep {
            assert_eq!(reps, 6_009_159, "number of suit-isomorphism classes of 7-card sets");
        }
        rep.sub(
            "orders-all-5040",
            if deep { "ALL 7! orders of ALL sets (VERIF_DEEP=1)" } else { "all 7! = 5040 presentation orders of one representative per suit-isomorphism class of 7-card sets (lexicographically smallest labelling, then relabelled by suit permutation #(running count mod 24)); oracle = M-rank class of the set" },
            ev,
            reps,
            deep,
            json!({"representatives": reps}),
        );
    } else {
        rep.bound("quick: the 5040-orders sweep over suit-class representatives is thorough-only; orders covered here are 14 structured orders per set");
    }
    if !deep {
        rep.bound("orders: complete (7!) only on 6,009,159 suit-class representatives (thorough); 14 structured orders on every set; the full 6.74e11 order sweep runs only with VERIF_DEEP=1");
    }

    // (h) call histories: the evaluation is a function of the seven cards, whatever was evaluated
    // before on the same thread. Alphabet: the witness of every reachable flush / straight-flush
    // class in all four suit rotations, plus every 20th other witness; all ordered pairs (h1, h2):
    // evaluate h1, then h2 must still get its own class.
    {
        let mut hands: Vec<([u8; 7], u16)> = vec![];
        let rot: Vec<[u8; 4]> = (0..4u8).map(|k| [k % 4, (k + 1) % 4, (k + 2) % 4, (k + 3) % 4]).collect();
        let mut other = 0usize;
        for (c, w) in witness.iter().enumerate() {
            if let Some(w) = w {
                let cat = m.category_of_class(c as u16);
                if cat == 5 || cat == 8 {
                    for r in &rot {
                        let mut h = [0u8; 7];
                        for i in 0..7 {
                            h[i] = relabel(w[i], r);
                        }
                        hands.push((h, c as u16));
                    }
                } else {
                    other += 1;
                    if other % 20 == 0 {
                        hands.push((*w, c as u16));
                    }
                }
            }
        }
        let nh = hands.len();
        let outs = par_map(nh, |i| {
            let (h1, _) = hands[i];
            let mut bad = vec![];
            let mut bad_total = 0u64;
            for (h2, c2) in hands.iter() {
                let _ = eval(arr(&all, &h1));
                let got = eval(arr(&all, h2));
                if got != Ok(*c2) {
                    bad_total += 1;
                    if bad.len() < 2 {
                        bad.push(Violation {
                            key: format!("history={} then {}", cards_text(&h1), cards_text(h2)),
                            sub: "call-history".into(),
                            case: json!({"history": [h1.to_vec(), h2.to_vec()]}),
                            expected: json!({"class_of_second_hand": c2}),
                            observed: match got { Ok(v) => json!({"power_index": v}), Err(e) => json!({"panic": e}) },
                        });
                    }
                }
            }
            (bad, bad_total)
        });
        for (bad, bt) in outs {
            let extra = bt - bad.len() as u64;
            for v in bad {
                rep.violation(v);
            }
            rep.violations_total += extra;
        }
        rep.machine(nh as u64, (nh * nh) as u64, (nh * nh) as u64);
        rep.sub("call-history", "all ordered pairs (h1, h2) over the witnesses of every reachable flush and straight-flush class in the four suit rotations plus every 20th other witness: h1 is evaluated, then h2 on the same thread must get its own class (the evaluation is a pure function of the cards). states = hands, transitions = pairs", (2 * nh * nh) as u64, nh as u64, false, json!({"hands": nh}));
    }

    // (d) comparison operators on one witness per reachable class
    let ws: Vec<(u16, MadeHand)> = witness
        .iter()
        .enumerate()
        .filter_map(|(c, w)| w.map(|w| (c as u16, w)))
        .filter_map(|(c, w)| catch(move || MadeHand::from(arr(&all_cards(), &w))).ok().map(|h| (c, h)))
        .collect();
    let n = ws.len();
    let outs = par_map(n, |i| {
        let (ci, hi) = ws[i];
        let mut bad = vec![];
        for &(cj, hj) in ws.iter() {
            let ok = (hi == hj) == (ci == cj)
                && (hi < hj) == (ci < cj)
                && (hi > hj) == (ci > cj)
                && (hi <= hj) == (ci <= cj)
                && hi.cmp(&hj) == ci.cmp(&cj)
                && hi.partial_cmp(&hj) == Some(ci.cmp(&cj));
            if !ok && bad.len() < 2 {
                bad.push((ci, cj));
            }
        }
        bad
    });
    for bad in outs {
        for (ci, cj) in bad {
            let wi = witness[ci as usize].unwrap();
            let wj = witness[cj as usize].unwrap();
            rep.violation(Violation {
                key: format!("compare {} vs {}", cards_text(&wi), cards_text(&wj)),
                sub: "compare".into(),
                case: json!({"a": wi.to_vec(), "b": wj.to_vec()}),
                expected: json!({"class_a": ci, "class_b": cj, "ordering": format!("{:?}", ci.cmp(&cj))}),
                observed: json!("==, <, >, <=, cmp or partial_cmp disagrees with the integer comparison of the true classes"),
            });
        }
    }
    // the same over suit rotations: equal classes made in different suits are equal hands
    {
        let rot: Vec<[u8; 4]> = (0..4u8).map(|k| [k % 4, (k + 1) % 4, (k + 2) % 4, (k + 3) % 4]).collect();
        let mut hs: Vec<(u16, [u8; 7], MadeHand)> = vec![];
        let mut other = 0usize;
        for (c, w) in witness.iter().enumerate() {
            if let Some(w) = w {
                let cat = m.category_of_class(c as u16);
                let take = if cat == 5 || cat == 8 { true } else { other += 1; other % 10 == 0 };
                if take {
                    for r in &rot {
                        let mut h = [0u8; 7];
                        for i in 0..7 {
                            h[i] = relabel(w[i], r);
                        }
                        if let Ok(mh) = catch(move || MadeHand::from(arr(&all_cards(), &h))) {
                            hs.push((c as u16, h, mh));
                        }
                    }
                }
            }
        }
        let nh = hs.len();
        let outs = par_map(nh, |i| {
            let (ci, _, hi) = hs[i];
            let mut bad = vec![];
            for (j, &(cj, _, hj)) in hs.iter().enumerate() {
                let ok = (hi == hj) == (ci == cj) && (hi < hj) == (ci < cj) && (hi > hj) == (ci > cj) && hi.cmp(&hj) == ci.cmp(&cj) && hi.partial_cmp(&hj) == Some(ci.cmp(&cj));
                if !ok && bad.len() < 2 {
                    bad.push(j);
                }
            }
            bad
        });
        for (i, bad) in outs.into_iter().enumerate() {
            for j in bad {
                rep.violation(Violation {
                    key: format!("compare {} vs {}", cards_text(&hs[i].1), cards_text(&hs[j].1)),
                    sub: "compare-across-suits".into(),
                    case: json!({"a": hs[i].1.to_vec(), "b": hs[j].1.to_vec()}),
                    expected: json!({"class_a": hs[i].0, "class_b": hs[j].0, "ordering": format!("{:?}", hs[i].0.cmp(&hs[j].0))}),
                    observed: json!("==, <, >, cmp or partial_cmp disagrees with the integer comparison of the true classes"),
                });
            }
        }
        rep.sub("compare-across-suits", "all ordered pairs over the witnesses of every flush / straight-flush class and every 10th other class, each in the four suit rotations: hands of one class made in different suits are equal, and ==, <, >, cmp, partial_cmp agree with the classes", (nh * nh) as u64, nh as u64, false, json!({"hands": nh}));
    }
    rep.sub(
        "compare",
        "all ordered pairs of one witness hand per reachable class: ==, <, >, <=, cmp, partial_cmp agree with integer comparison of the M-rank classes (smaller = wins, equal = tie)",
        (n * n) as u64,
        n as u64,
        true,
        json!({"witness_classes": n}),
    );
    rep.assume("M-rank (harness/vlib/src/mrank.rs) is the standard poker ranking: self-checked on every run against 7462 classes, per-category class/hand counts and the published 7-card histogram");
    rep.finish()
}

pub fn run_c07(tier: &str) -> i32 {
    let mut rep = Report::new("C07", tier);
    let m = MRank::build();
    let all = all_cards();
    let its = items();
    struct Out {
        sets: u64,
        /// per reported power index: (reported name id, oracle category, witness) ; 255 = not seen
        by_index: Vec<(u16, (u8, u8, [u8; 7]))>,
        bad: Vec<Violation>,
        bad_total: u64,
        /// per oracle category: (min index, witness), (max index, witness)
        ext: [Option<((u16, [u8; 7]), (u16, [u8; 7]))>; 9],
    }
    let name_id = |name: &str| -> u8 {
        CATEGORY_NAMES.iter().position(|n| *n == name).map(|p| p as u8).unwrap_or(200)
    };
    let outs = par_map(its.len(), |k| {
        let (a, b) = its[k];
        let mut o = Out { sets: 0, by_index: vec![], bad: vec![], bad_total: 0, ext: Default::default() };
        let mut local_by_index: Vec<Option<(u8, u8, [u8; 7])>> = vec![None; 65536];
        // per index: discriminant first seen (must stay the same for that index) + name id
        let mut disc: Vec<Option<(std::mem::Discriminant<_>, u8)>> = vec![None; 65536];
        for_each_set(a, b, |set| {
            o.sets += 1;
            let class = m.class7_sorted(set);
            let cat = m.category_of_class(class) as u8;
            let cards = arr(&all, set);
            let got = catch(move || {
                let h = MadeHand::from(cards);
                (h.power_index(), h.hand_type())
            });
            let (idx, reported) = match got {
                Ok((idx, ht)) => {
                    let d = std::mem::discriminant(&ht);
                    let id = match disc[idx as usize] {
                        Some((d0, id)) if d0 == d => id,
                        Some((_, _)) => 201, // category not a function of the index
                        None => {
                            let id = name_id(&format!("{:?}", ht));
                            disc[idx as usize] = Some((d, id));
                            id
                        }
                    };
                    (idx, id)
                }
                Err(_) => (0, 202),
            };
            if reported != cat {
                o.bad_total += 1;
                if o.bad.len() < 40 && !o.bad.iter().any(|v| v.key.starts_with(&format!("index={} ", idx))) {
                    let rn = match reported {
                        0..=8 => CATEGORY_NAMES[reported as usize].to_string(),
                        200 => "unknown category name".into(),
                        201 => "category differs between hands with the same index".into(),
                        _ => "panic".into(),
                    };
                    o.bad.push(Violation {
                        key: format!("index={} reported={} expected={}", idx, rn, CATEGORY_NAMES[cat as usize]),
                        sub: "category-sweep".into(),
                        case: json!({"cards": set.to_vec(), "text": cards_text(set)}),
                        expected: json!({"category": CATEGORY_NAMES[cat as usize], "true_class": class}),
                        observed: json!({"power_index": idx, "hand_type": rn}),
                    });
                }
            }
            if local_by_index[idx as usize].is_none() {
                local_by_index[idx as usize] = Some((reported, cat, *set));
            }
            let e = &mut o.ext[cat as usize];
            match e {
                None => *e = Some(((idx, *set), (idx, *set))),
                Some((lo, hi)) => {
                    if idx < lo.0 {
                        *lo = (idx, *set);
                    }
                    if idx > hi.0 {
                        *hi = (idx, *set);
                    }
                }
            }
        });
        o.by_index = local_by_index.iter().enumerate().filter_map(|(i, x)| x.map(|x| (i as u16, x))).collect();
        o
    });
    let mut sets = 0u64;
    let mut by_index: Vec<Option<(u8, u8, [u8; 7])>> = vec![None; 65536];
    let mut ext: [Option<((u16, [u8; 7]), (u16, [u8; 7]))>; 9] = Default::default();
    let mut seen_keys = std::collections::BTreeSet::new();
    for o in outs {
        sets += o.sets;
        for (i, x) in o.by_index.iter() {
            if by_index[*i as usize].is_none() {
                by_index[*i as usize] = Some(*x);
            }
        }
        for c in 0..9 {
            if let Some((lo, hi)) = o.ext[c] {
                match &mut ext[c] {
                    None => ext[c] = Some((lo, hi)),
                    Some((l0, h0)) => {
                        if lo.0 < l0.0 {
                            *l0 = lo;
                        }
                        if hi.0 > h0.0 {
                            *h0 = hi;
                        }
                    }
                }
            }
        }
        let mut kept = 0u64;
        for v in o.bad {
            // one violation per distinct (index, reported, expected)
            if seen_keys.insert(v.key.clone()) {
                rep.violation(v);
                kept += 1;
            }
        }
        let _ = kept;
    }
    assert_eq!(sets, 133_784_560);
    let reached = by_index.iter().filter(|x| x.is_some()).count() as u64;
    let mut boundaries = vec![];
    for c in (0..9).rev() {
        if let Some((lo, hi)) = ext[c] {
            boundaries.push(json!({"category": CATEGORY_NAMES[c], "strongest_index": lo.0, "strongest_hand": cards_text(&lo.1), "weakest_index": hi.0, "weakest_hand": cards_text(&hi.1)}));
            rep.sample(json!({"category": CATEGORY_NAMES[c], "weakest_hand": cards_text(&hi.1), "index": hi.0}));
        }
    }
    rep.sub(
        "category-sweep",
        "every 7-card set: hand_type() (Debug name, and discriminant must be a function of the power index) compared with the category of the M-rank best five-card hand; distinct_nontrivial = distinct power indexes reported",
        sets,
        reached,
        true,
        json!({"distinct_indexes": reached, "category_boundaries": boundaries}),
    );
    rep.assume("M-rank categories follow the standard rules (self-checked class and hand counts per category)");
    rep.bound("indexes that seven cards cannot produce are not part of the property and are not probed");
    rep.finish()
}

pub fn replay(case: &Value) -> Value {
    let all = all_cards();
    let m = MRank::build();
    if let Some(cards) = case.get("cards").and_then(|c| c.as_array()) {
        let idx: Vec<u8> = cards.iter().map(|v| v.as_u64().unwrap() as u8).collect();
        let p: [u8; 7] = idx.clone().try_into().unwrap();
        let cs = arr(&all, &p);
        let got = catch(move || {
            let h = MadeHand::from(cs);
            (h.power_index(), format!("{:?}", h.hand_type()))
        });
        let class = m.class7(&p);
        return json!({"cards": cards_text(&p), "true_class": class, "true_category": CATEGORY_NAMES[m.category_of_class(class)],
            "observed": match got { Ok((i, t)) => json!({"power_index": i, "hand_type": t}), Err(e) => json!({"panic": e}) }});
    }
    if let Some(h) = case.get("history").and_then(|c| c.as_array()) {
        let mut seq = vec![];
        for hand in h {
            let idx: Vec<u8> = hand.as_array().unwrap().iter().map(|v| v.as_u64().unwrap() as u8).collect();
            let p: [u8; 7] = idx.try_into().unwrap();
            let got = eval(arr(&all, &p));
            seq.push(json!({"cards": cards_text(&p), "true_class": m.class7(&p), "observed": format!("{:?}", got)}));
        }
        return json!({"sequence": seq});
    }
    json!({"error": "unsupported replay case"})
}
