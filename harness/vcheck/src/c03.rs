//! C03: a showdown flags exactly the players holding the strongest hand.
//! Real `Showdown::new` over structured families that realise every weak ordering of up to
//! four players, every winner subset at a full table, board-plays ties and all boards.

use espada::card::Card;
use espada::evaluator::{MadeHand, Showdown};
use serde_json::{json, Value};
use std::collections::BTreeSet;
use vlib::cards::*;
use vlib::mrank::MRank;
use vlib::par::par_map;
use vlib::report::{catch, Report, Violation};

fn board_cards(all: &[Card; 52], b: &[u8; 5]) -> [Card; 5] {
    [all[b[0] as usize], all[b[1] as usize], all[b[2] as usize], all[b[3] as usize], all[b[4] as usize]]
}

/// run the real constructor and compare everything the property names; None = ok
fn check_one(m: &MRank, all: &[Card; 52], board: &[u8; 5], holes: &[(u8, u8)], prob: f32) -> Option<Value> {
    let collides = holes.iter().any(|(a, b)| board.contains(a) || board.contains(b));
    let pairs: Vec<_> = holes.iter().map(|(a, b)| Combo::new(*a, *b).card_pair()).collect();
    let bc = board_cards(all, board);
    let r = catch(move || Showdown::new(pairs, bc, prob));
    let sd = match r {
        Err(e) => return Some(json!({"panic": e})),
        Ok(None) => {
            return if collides { None } else { Some(json!({"problem": "no showdown produced although no hole card lies on the board"})) };
        }
        Ok(Some(sd)) => {
            if collides {
                return Some(json!({"problem": "a showdown was produced although a hole card lies on the board"}));
            }
            sd
        }
    };
    let classes: Vec<u16> = holes.iter().map(|(a, b)| m.class7(&[*a, *b, board[0], board[1], board[2], board[3], board[4]])).collect();
    // everything read back from the showdown is subject code too: a panic there is an observation
    let (holes2, board2, classes2) = (holes.to_vec(), *board, classes.clone());
    match catch(std::panic::AssertUnwindSafe(move || inspect(&sd, &board2, &holes2, &classes2, prob))) {
        Ok(v) => v,
        Err(e) => Some(json!({"panic_while_reading_the_showdown": e})),
    }
}

fn inspect(sd: &Showdown, board: &[u8; 5], holes: &[(u8, u8)], classes: &[u16], prob: f32) -> Option<Value> {
    let best = *classes.iter().min().unwrap_or(&0);
    let ps = sd.players();
    if ps.len() != holes.len() {
        return Some(json!({"problem": "player count differs", "players": ps.len()}));
    }
    if sd.board().iter().map(idx_of).collect::<Vec<_>>() != board.to_vec() {
        return Some(json!({"problem": "board() differs from the board given"}));
    }
    if sd.probability().to_bits() != prob.to_bits() {
        return Some(json!({"problem": "probability() differs from the argument"}));
    }
    let mut flagged = 0u8;
    for (i, p) in ps.iter().enumerate() {
        let want = Combo::new(holes[i].0, holes[i].1);
        if Combo::of(&p.hole_cards()) != want {
            return Some(json!({"problem": "players are not in input order", "player": i, "holds": p.hole_cards().to_string(), "expected": want.text()}));
        }
        if p.board().iter().map(idx_of).collect::<Vec<_>>() != board.to_vec() {
            return Some(json!({"problem": "player board differs", "player": i}));
        }
        let seven: Vec<u8> = p.cards().iter().map(idx_of).collect();
        let mut seven_sorted = seven.clone();
        seven_sorted.sort_unstable();
        let mut exp7 = vec![want.0, want.1, board[0], board[1], board[2], board[3], board[4]];
        exp7.sort_unstable();
        if seven_sorted != exp7 {
            return Some(json!({"problem": "cards() is not the player's own seven cards", "player": i}));
        }
        let own = MadeHand::from(p.cards());
        if p.hand() != own {
            return Some(json!({"problem": "hand() is not the evaluation of the player's own seven cards", "player": i, "hand": p.hand().power_index(), "own": own.power_index()}));
        }
        if p.hand().power_index() != classes[i] {
            return Some(json!({"problem": "hand() differs from the true strength class", "player": i, "hand": p.hand().power_index(), "true_class": classes[i]}));
        }
        let should = classes[i] == best;
        if p.is_winner() != should {
            return Some(json!({"problem": if should { "a player nobody beats is not flagged" } else { "a beaten player is flagged" }, "player": i, "classes": classes, "flags": ps.iter().map(|p| p.is_winner()).collect::<Vec<_>>()}));
        }
        if p.is_winner() {
            flagged += 1;
        }
    }
    if sd.winner_len() != flagged || (flagged == 0 && !holes.is_empty()) {
        return Some(json!({"problem": "winner_len() differs from the number of flagged players or is zero", "winner_len": sd.winner_len(), "flagged": flagged}));
    }
    None
}

fn weak_order_pattern(classes: &[u16]) -> Vec<u8> {
    let mut d: Vec<u16> = classes.to_vec();
    d.sort_unstable();
    d.dedup();
    classes.iter().map(|c| d.binary_search(c).unwrap() as u8).collect()
}

fn viol(rep: &mut Report, sub: &str, board: &[u8; 5], holes: &[(u8, u8)], bad: Value) {
    let hs: Vec<String> = holes.iter().map(|(a, b)| format!("{}{}", card_text(*a), card_text(*b))).collect();
    rep.violation(Violation {
        key: format!("board={} players={}", cards_text(board), hs.join(",")),
        sub: sub.into(),
        case: json!({"board": board.to_vec(), "holes": holes.iter().map(|(a, b)| vec![*a, *b]).collect::<Vec<_>>()}),
        expected: json!("players in input order, own evaluation, exactly the unbeaten players flagged, winner_len = flags >= 1"),
        observed: bad,
    });
}

fn c(t: &str) -> u8 {
    let b = t.as_bytes();
    (RANK_CHARS.iter().position(|x| *x == b[0] as char).unwrap() * 4 + SUIT_CHARS.iter().position(|x| *x == b[1] as char).unwrap()) as u8
}
fn b5(t: &str) -> [u8; 5] {
    [c(&t[0..2]), c(&t[2..4]), c(&t[4..6]), c(&t[6..8]), c(&t[8..10])]
}

pub fn run(tier: &str) -> i32 {
    let mut rep = Report::new("C03", tier);
    let thorough = tier == "thorough";
    let m = MRank::build();
    let all = all_cards();

    // (a) every weak ordering of up to four players: dry board, {ace} x {J,T,9,8 of each suit}
    let board = b5("KsQd7h4c2s");
    let mut alpha: Vec<(u8, u8)> = vec![];
    for a in 0..4u8 {
        for k in ["J", "T", "9", "8"] {
            for s in SUIT_CHARS {
                alpha.push((a, c(&format!("{}{}", k, s))));
            }
        }
    }
    let na = alpha.len();
    // work item = first combo; enumerate the rest
    let outs = par_map(na, |i0| {
        let mut bad: Vec<(Vec<(u8, u8)>, Value)> = vec![];
        let mut n_eval = 0u64;
        let mut patterns: [BTreeSet<Vec<u8>>; 5] = Default::default();
        let mut cur: Vec<(u8, u8)> = vec![alpha[i0]];
        fn rec(m: &MRank, all: &[Card; 52], board: &[u8; 5], alpha: &[(u8, u8)], cur: &mut Vec<(u8, u8)>, n_eval: &mut u64, patterns: &mut [BTreeSet<Vec<u8>>; 5], bad: &mut Vec<(Vec<(u8, u8)>, Value)>) {
            *n_eval += 1;
            let classes: Vec<u16> = cur.iter().map(|(a, b)| m.class7(&[*a, *b, board[0], board[1], board[2], board[3], board[4]])).collect();
            patterns[cur.len()].insert(weak_order_pattern(&classes));
            if let Some(b) = check_one(m, all, board, cur, 0.5) {
                if bad.len() < 3 {
                    bad.push((cur.clone(), b));
                }
            }
            if cur.len() == 4 {
                return;
            }
            for x in alpha {
                if cur.iter().any(|y| y.0 == x.0 || y.1 == x.1 || y.0 == x.1 || y.1 == x.0) {
                    continue;
                }
                cur.push(*x);
                rec(m, all, board, alpha, cur, n_eval, patterns, bad);
                cur.pop();
            }
        }
        rec(&m, &all, &board, &alpha, &mut cur, &mut n_eval, &mut patterns, &mut bad);
        (bad, n_eval, patterns)
    });
    let mut n_eval = 0u64;
    let mut patterns: [BTreeSet<Vec<u8>>; 5] = Default::default();
    for (bad, n, p) in outs {
        n_eval += n;
        for (holes, b) in bad {
            viol(&mut rep, "weak-orders", &board, &holes, b);
        }
        for k in 0..5 {
            patterns[k].extend(p[k].iter().cloned());
        }
    }
    let pat_counts: Vec<usize> = (1..5).map(|k| patterns[k].len()).collect();
    let all_patterns = pat_counts == vec![1, 3, 13, 75];
    rep.sub(
        "weak-orders",
        "board KsQd7h4c2s; all ordered tuples of 1..=4 pairwise-disjoint combos from {ace} x {J,T,9,8 of each suit} (64 combos, 4 strength levels, ties by suit). distinct_nontrivial = distinct weak-order patterns of the players' strengths realised (1/3/13/75 for n=1..4 is every one)",
        n_eval,
        pat_counts.iter().sum::<usize>() as u64,
        all_patterns,
        json!({"weak_order_patterns_by_n": pat_counts, "all_weak_orders_of_up_to_4_players_realised": all_patterns}),
    );
    rep.sample(json!({"board": "KsQd7h4c2s", "players": ["AsJh", "AhJd", "AdTs"], "expect": "first two tie"}));

    // (b) 5..=10 players: type sequences {six, ace, pair, blank}^n on 2s3d4h5c7s
    let board = b5("2s3d4h5c7s");
    let sixes: Vec<u8> = SUIT_CHARS.iter().map(|s| c(&format!("6{}", s))).collect();
    let aces: Vec<u8> = SUIT_CHARS.iter().map(|s| c(&format!("A{}", s))).collect();
    let sevens: Vec<u8> = ['h', 'd', 'c'].iter().map(|s| c(&format!("7{}", s))).collect();
    let mut blanks: Vec<u8> = vec![];
    for s in SUIT_CHARS {
        for r in ["K", "Q", "J", "T", "9"] {
            blanks.push(c(&format!("{}{}", r, s)));
        }
    }
    let max_n = 10;
    let mut seqs: Vec<Vec<u8>> = vec![];
    for n in 5..=max_n {
        for code in 0..(4u32.pow(n as u32)) {
            let s: Vec<u8> = (0..n).map(|i| ((code >> (2 * i)) & 3) as u8).collect();
            let cnt = |t: u8| s.iter().filter(|x| **x == t).count();
            let nblank = cnt(0) + cnt(1) + cnt(2) + 2 * cnt(3);
            if cnt(0) <= 4 && cnt(1) <= 4 && cnt(2) <= 3 && nblank <= blanks.len() {
                seqs.push(s);
            }
        }
    }
    let chunk = 4096;
    let nchunks = (seqs.len() + chunk - 1) / chunk;
    let outs = par_map(nchunks, |ci| {
        let mut bad = vec![];
        let mut winner_sets = BTreeSet::new();
        for s in &seqs[ci * chunk..((ci + 1) * chunk).min(seqs.len())] {
            let (mut i6, mut ia, mut i7, mut ib) = (0, 0, 0, 0);
            let mut holes = vec![];
            for t in s {
                let first = match t {
                    0 => {
                        i6 += 1;
                        sixes[i6 - 1]
                    }
                    1 => {
                        ia += 1;
                        aces[ia - 1]
                    }
                    2 => {
                        i7 += 1;
                        sevens[i7 - 1]
                    }
                    _ => {
                        ib += 1;
                        blanks[ib - 1]
                    }
                };
                ib += 1;
                holes.push((first, blanks[ib - 1]));
            }
            // a blank+blank hand of one rank would be a pocket pair; blanks are laid out rank-minor so neighbours differ in rank
            let classes: Vec<u16> = holes.iter().map(|(a, b)| m.class7(&[*a, *b, board[0], board[1], board[2], board[3], board[4]])).collect();
            let best = *classes.iter().min().unwrap();
            let wset: u16 = classes.iter().enumerate().filter(|(_, c)| **c == best).map(|(i, _)| 1u16 << i).sum();
            winner_sets.insert((s.len() as u8, wset));
            if let Some(b) = check_one(&m, &all, &board, &holes, 0.25) {
                if bad.len() < 3 {
                    bad.push((holes, b));
                }
            }
        }
        (bad, winner_sets)
    });
    let mut winner_sets = BTreeSet::new();
    for (bad, ws) in outs {
        for (holes, b) in bad {
            viol(&mut rep, "full-table", &board, &holes, b);
        }
        winner_sets.extend(ws);
    }
    rep.sub(
        "full-table",
        "board 2s3d4h5c7s, 5..=10 players, every sequence of player types {six: top straight, ace: wheel, seven: pair, blank} the deck can supply; distinct_nontrivial = distinct (player count, set of winning seats) realised",
        seqs.len() as u64,
        winner_sets.len() as u64,
        false,
        json!({"sequences": seqs.len(), "distinct_winner_sets": winner_sets.len(), "max_players": max_n}),
    );

    // (c) the board plays: everybody ties (or the oracle says who does not)
    let mut n_c = 0u64;
    let mut all_tie = 0u64;
    for bt in ["AsKsQsJsTs", "AsKdQhJcTs", "KsKhKdKcAs", "AsAhAdKsKd", "2s2h2d2c3s", "AsKsQsJs9s"] {
        let board = b5(bt);
        let free: Vec<u8> = (0..52u8).filter(|x| !board.contains(x)).collect();
        for n in 1..=10usize {
            for rot in 0..free.len() {
                for stride in [1usize, 7] {
                    let holes: Vec<(u8, u8)> = (0..n).map(|i| (free[(rot + stride * 2 * i) % free.len()], free[(rot + stride * (2 * i + 1)) % free.len()])).collect();
                    let mut seen = BTreeSet::new();
                    if !holes.iter().all(|(a, b)| seen.insert(*a) && seen.insert(*b)) {
                        continue;
                    }
                    n_c += 1;
                    let classes: Vec<u16> = holes.iter().map(|(a, b)| m.class7(&[*a, *b, board[0], board[1], board[2], board[3], board[4]])).collect();
                    if classes.iter().all(|c| *c == classes[0]) && n > 1 {
                        all_tie += 1;
                    }
                    if let Some(b) = check_one(&m, &all, &board, &holes, 1.0) {
                        viol(&mut rep, "board-plays", &board, &holes, b);
                    }
                }
            }
        }
    }
    rep.sub("board-plays", "six boards on which the board (nearly) plays x 1..=10 players x rotations of the remaining deck as hole cards; distinct_nontrivial = tables where all of >= 2 players tie", n_c, all_tie, false, json!({"all_players_tie": all_tie}));

    // (e) collisions: a hole card equal to a board card => None
    let board = b5("KsQd7h4c2s");
    let mut n_e = 0u64;
    for n in 1..=4usize {
        let base: Vec<(u8, u8)> = vec![(c("As"), c("Jh")), (c("Ah"), c("Td")), (c("Ad"), c("9c")), (c("Ac"), c("8s"))];
        for slot in 0..n {
            for which in 0..2 {
                for bi in 0..5 {
                    let mut holes = base[..n].to_vec();
                    if which == 0 {
                        holes[slot].0 = board[bi];
                    } else {
                        holes[slot].1 = board[bi];
                    }
                    n_e += 1;
                    if let Some(b) = check_one(&m, &all, &board, &holes, 1.0) {
                        viol(&mut rep, "collision", &board, &holes, b);
                    }
                }
            }
        }
    }
    // ... and on paired / trips / two-pair boards given in EVERY order (equal ranks not in suit order)
    {
        let perms5: Vec<[usize; 5]> = {
            let mut v = vec![];
            let idx = [0usize, 1, 2, 3, 4];
            fn rec(cur: &mut Vec<usize>, idx: &[usize; 5], out: &mut Vec<[usize; 5]>) {
                if cur.len() == 5 {
                    out.push([cur[0], cur[1], cur[2], cur[3], cur[4]]);
                    return;
                }
                for i in idx {
                    if !cur.contains(i) {
                        cur.push(*i);
                        rec(cur, idx, out);
                        cur.pop();
                    }
                }
            }
            rec(&mut vec![], &idx, &mut v);
            v
        };
        for bt in ["7d7sKh2s9c", "7c7d7sKh2s", "7d7sKhKc2s", "AsAhAdAcKs"] {
            let base = b5(bt);
            let free: Vec<u8> = (0..52u8).filter(|x| !base.contains(x)).collect();
            for p in &perms5 {
                let board = [base[p[0]], base[p[1]], base[p[2]], base[p[3]], base[p[4]]];
                for bi in 0..5 {
                    for (other, first) in [(free[3], true), (free[40], false)] {
                        let hole = if first { (board[bi], other) } else { (other, board[bi]) };
                        n_e += 1;
                        for holes in [vec![hole], vec![(free[10], free[11]), hole]] {
                            if let Some(b) = check_one(&m, &all, &board, &holes, 1.0) {
                                viol(&mut rep, "collision", &board, &holes, b);
                            }
                        }
                    }
                }
            }
        }
    }
    rep.sub("collision", "for 1..=4 players, every player slot, both card slots and each of the five board cards: a hole card on the board must give no showdown; and the same on a paired, a trips, a two-pair and a quads board given in all 120 orders", n_e, n_e, true, json!({}));


    // (f) same two ranks in every suit combination, on boards with two, three, four and five cards of one suit
    {
        let boards = ["Ks9s4h7d2c", "Ks9s4s7d2h", "Ks9s4s7s2h", "Ks9s4s7s2s", "Kh9s4s7d2s", "KsKh4s7s2d", "Qs9s4s7d7h"];
        let mut combos: Vec<(u8, u8)> = vec![];
        for (ra, rb) in [("A", "Q"), ("A", "A"), ("8", "3")] {
            for sa in SUIT_CHARS {
                for sb in SUIT_CHARS {
                    let (x, y) = (c(&format!("{}{}", ra, sa)), c(&format!("{}{}", rb, sb)));
                    if x < y || (ra != rb && x != y) {
                        if x != y && !combos.contains(&(x.min(y), x.max(y))) {
                            combos.push((x.min(y), x.max(y)));
                        }
                    }
                }
            }
        }
        let nb = boards.len();
        let nc = combos.len();
        let outs = par_map(nb * nc, |k| {
            let board = b5(boards[k / nc]);
            let first = combos[k % nc];
            let mut bad = vec![];
            let mut n = 0u64;
            let mut flushy = 0u64;
            for second in &combos {
                let disjoint2 = first.0 != second.0 && first.0 != second.1 && first.1 != second.0 && first.1 != second.1;
                if !disjoint2 {
                    continue;
                }
                let mut tables: Vec<Vec<(u8, u8)>> = vec![vec![first, *second]];
                // a third player of the first rank pair's kind
                for third in combos.iter().step_by(5) {
                    let t = vec![first, *second, *third];
                    let mut seen = std::collections::BTreeSet::new();
                    if t.iter().all(|(a, b)| seen.insert(*a) && seen.insert(*b)) {
                        tables.push(t);
                    }
                }
                for t in tables {
                    n += 1;
                    let classes: Vec<u16> = if t.iter().any(|(a, b)| board.contains(a) || board.contains(b)) { vec![] } else { t.iter().map(|(a, b)| m.class7(&[*a, *b, board[0], board[1], board[2], board[3], board[4]])).collect() };
                    if classes.iter().any(|cl| m.category_of_class(*cl) == 5) {
                        flushy += 1;
                    }
                    if let Some(bv) = check_one(&m, &all, &board, &t, 1.0) {
                        if bad.len() < 2 {
                            bad.push((t, bv));
                        }
                    }
                }
            }
            (bad, n, flushy)
        });
        let mut n = 0u64;
        let mut fl = 0u64;
        for (k, (bad, a, b)) in outs.into_iter().enumerate() {
            n += a;
            fl += b;
            for (holes, bv) in bad {
                viol(&mut rep, "same-ranks-all-suits", &b5(boards[k / nc]), &holes, bv);
            }
        }
        rep.sub("same-ranks-all-suits", "seven boards holding two, three, four and five cards of one suit or a pair x all ordered pairs (and a fifth of the triples) of disjoint combos among AQ, AA and 83 in every suit combination: hands of identical ranks that differ only by making a flush or not. distinct_nontrivial = tables in which somebody holds a flush", n, fl, false, json!({"combos": nc, "boards": nb}));
    }

    // (g) the showdowns the flop evaluator itself builds: same oracle, on every showdown of a full enumeration
    {
        use espada::evaluator::FlopExhaustiveEvaluator;
        use espada::hand_range::HandRange;
        let flops = ["AsKh7d", "AsKs7d", "AsKs7s", "7s7hKd", "2c3d4h", "QhJd2c", "Th9h8c"];
        let range_texts = ["QJs,98s", "AKs,76s:0.5", "55,A5s"];
        let jobs: Vec<(usize, usize, usize)> = (0..flops.len()).flat_map(|f| (0..range_texts.len()).flat_map(move |a| (0..range_texts.len()).map(move |b| (f, a, b)))).collect();
        let outs = par_map(jobs.len(), |j| {
            let (f, a, b) = jobs[j];
            let ft = flops[f];
            let flop = [c(&ft[0..2]), c(&ft[2..4]), c(&ft[4..6])];
            let mut n = 0u64;
            let mut flushes = 0u64;
            let r = catch(std::panic::AssertUnwindSafe(|| {
                let ranges: Vec<HandRange> = vec![range_texts[a].parse().unwrap(), range_texts[b].parse().unwrap()];
                let mut bad: Option<(Vec<u8>, Vec<(u8, u8)>, Value)> = None;
                for sd in FlopExhaustiveEvaluator::new(&board_opt(&flop), &ranges) {
                    n += 1;
                    let bd: Vec<u8> = sd.board().iter().map(idx_of).collect();
                    let board = [bd[0], bd[1], bd[2], bd[3], bd[4]];
                    let holes: Vec<(u8, u8)> = sd.players().iter().map(|p| { let cb = Combo::of(&p.hole_cards()); (cb.0, cb.1) }).collect();
                    let classes: Vec<u16> = holes.iter().map(|(x, y)| m.class7(&[*x, *y, board[0], board[1], board[2], board[3], board[4]])).collect();
                    if classes.iter().any(|cl| { let k = m.category_of_class(*cl); k == 5 || k == 8 }) {
                        flushes += 1;
                    }
                    if bad.is_none() {
                        if let Some(v) = inspect(&sd, &board, &holes, &classes, sd.probability()) {
                            bad = Some((bd.clone(), holes.clone(), v));
                        }
                    }
                }
                bad
            }));
            (r, n, flushes)
        });
        let mut n = 0u64;
        let mut fl = 0u64;
        for (j, (r, k, f)) in outs.into_iter().enumerate() {
            n += k;
            fl += f;
            match r {
                Ok(None) => {}
                Ok(Some((bd, holes, v))) => viol(&mut rep, "through-the-evaluator", &[bd[0], bd[1], bd[2], bd[3], bd[4]], &holes, v),
                Err(e) => rep.violation(Violation { key: format!("evaluator flop={} ranges={} / {}", flops[jobs[j].0], range_texts[jobs[j].1], range_texts[jobs[j].2]), sub: "through-the-evaluator".into(), case: json!({"flop": flops[jobs[j].0]}), expected: json!("enumerates"), observed: json!({"panic": e}) }),
            }
        }
        rep.machine(n.max(1), n.max(1), jobs.len() as u64);
        rep.sub("through-the-evaluator", "every showdown the flop evaluator builds on 7 flops (rainbow, two-tone, monotone, paired, low, connected) x all ordered pairs of three suited-heavy ranges: own evaluation = true class, flags = unbeaten players, winner_len. distinct_nontrivial = showdowns in which somebody holds a flush", n, fl, false, json!({"showdowns": n}));
    }

    // (d) all boards x fixed tuples (collisions included: expect None exactly then)
    {
        let tuples: Vec<Vec<(u8, u8)>> = vec![
            vec![(c("As"), c("Ks")), (c("Qh"), c("Qd"))],
            vec![(c("7c"), c("2d")), (c("7d"), c("2c")), (c("Ah"), c("Kh"))],
            vec![(c("Ts"), c("9s")), (c("Th"), c("9h")), (c("Td"), c("9d")), (c("Tc"), c("9c"))],
        ];
        let firsts: Vec<u8> = (0..48u8).collect();
        let outs = par_map(firsts.len(), |k| {
            let a = firsts[k];
            let mut bad = vec![];
            let mut n = 0u64;
            let mut nontrivial = 0u64;
            for b in (a + 1)..52 {
                for cc in (b + 1)..52 {
                    for d in (cc + 1)..52 {
                        for e in (d + 1)..52 {
                            let board = [a, b, cc, d, e];
                            for t in &tuples {
                                n += 1;
                                if !t.iter().any(|(x, y)| board.contains(x) || board.contains(y)) {
                                    nontrivial += 1;
                                }
                                if let Some(bv) = check_one(&m, &all, &board, t, 1.0) {
                                    if bad.len() < 2 {
                                        bad.push((board, t.clone(), bv));
                                    }
                                }
                            }
                        }
                    }
                }
            }
            (bad, n, nontrivial)
        });
        let mut n = 0u64;
        let mut nt = 0u64;
        for (bad, a, b) in outs {
            n += a;
            nt += b;
            for (board, holes, bv) in bad {
                viol(&mut rep, "all-boards", &board, &holes, bv);
            }
        }
        rep.sub("all-boards", "all C(52,5) boards x three fixed tables (heads-up, three-way with two identical-rank hands, four-way all-suits T9s); boards containing a hole card must give None. distinct_nontrivial = (board, table) pairs without collision", n, nt, true, json!({}));
    }
    histories(&mut rep, &m, &all, thorough);
    rep.bound("boards x tables are structured families, not all boards x all hole-card assignments");
    rep.assume("true strength = M-rank class of the player's seven cards (self-checked reference ranking)");
    rep.finish()
}

type Deal = ([u8; 5], Vec<(u8, u8)>);

/// run a history of calls on ONE fresh OS thread (each deal `times` in a row); every call is checked like a single
/// call; returns (item, repetition, discrepancy) of the first call whose result depends on what went before
fn run_history(m: &MRank, all: &[Card; 52], hist: &[(Deal, usize)]) -> Option<(usize, usize, Value)> {
    std::thread::scope(|s| {
        s.spawn(|| {
            for (i, (deal, times)) in hist.iter().enumerate() {
                for r in 0..*times {
                    if let Some(b) = check_one(m, all, &deal.0, &deal.1, 0.5) {
                        return Some((i, r, b));
                    }
                }
            }
            None
        })
        .join()
        .unwrap_or_else(|_| Some((0, 0, json!({"problem": "the history thread died"}))))
    })
}

fn history_json(hist: &[(Deal, usize)]) -> Value {
    json!(hist.iter().map(|(d, t)| json!({"board": d.0.to_vec(), "holes": d.1.iter().map(|(a, b)| vec![*a, *b]).collect::<Vec<_>>(), "times": t})).collect::<Vec<_>>())
}

fn history_text(hist: &[(Deal, usize)]) -> String {
    hist.iter().map(|(d, t)| format!("{} [{}] x{}", cards_text(&d.0), d.1.iter().map(|(a, b)| format!("{}{}", card_text(*a), card_text(*b))).collect::<Vec<_>>().join(","), t)).collect::<Vec<_>>().join(" ; ")
}

/// Showdown::new is a function of its arguments: (1) every sequence of three calls over 24 deals (three boards x eight
/// seatings, some of which are refused because a hole card lies on the board), on one thread, each call checked
/// like a single call; (2) long runs: a deal won by seat s, then 66,000 repetitions of a deal in which seat s
/// loses (more calls than a 16-bit counter, stamp or epoch can tell apart), for every seat of a full table
fn histories(rep: &mut Report, m: &MRank, all: &[Card; 52], thorough: bool) {
    let h = |t: &str| (c(&t[0..2]), c(&t[2..4]));
    // (1) all call sequences of length 3
    let boards = [b5("QsJsTs4d5c"), b5("2h7c8s9h3d"), b5("AdKd7h7s2c")];
    let seatings: Vec<Vec<(u8, u8)>> = vec![
        vec![h("AsKs"), h("QdQc")],
        vec![h("QdQc"), h("AsKs")],
        vec![h("2h2d"), h("AsKs")],
        vec![h("AsKs"), h("2h2d")],
        vec![h("Ts9s"), h("AsKs")],
        vec![h("AsKs"), h("7s6s")],
        vec![h("QdQc"), h("2h2d"), h("AsKs")],
        vec![h("AsKs"), h("Ts9s"), h("QdQc")],
    ];
    let mut deals: Vec<Deal> = vec![];
    for b in &boards {
        for st in &seatings {
            deals.push((*b, st.clone()));
        }
    }
    let nd = deals.len();
    let outs = par_map(nd, |i| {
        let mut bad = vec![];
        for j in 0..nd {
            for k in 0..nd {
                let hist = vec![(deals[i].clone(), 1usize), (deals[j].clone(), 1), (deals[k].clone(), 1)];
                if let Some((item, _, b)) = run_history(m, all, &hist) {
                    if bad.len() < 2 {
                        bad.push((hist, item, b));
                    }
                }
            }
        }
        bad
    });
    for bad in outs {
        for (hist, item, b) in bad {
            rep.violation(Violation { key: format!("history={} (call {} differs)", history_text(&hist), item + 1), sub: "call-histories".into(), case: json!({"history": history_json(&hist)}), expected: json!("every call gives what the same call gives alone"), observed: b });
        }
    }
    let refused = deals.iter().filter(|d| d.1.iter().any(|(a, b)| d.0.contains(a) || d.0.contains(b))).count();
    rep.machine(nd as u64, (nd * nd * nd * 3) as u64, (nd * nd * nd) as u64);
    rep.sub("call-histories", "ALL sequences of three calls over 24 deals (three boards x eight seatings of two or three players that share hole-card pairs across boards; some deals are refused because a hole card lies on the board), each sequence on one fresh thread, every call checked like a single call; distinct_nontrivial = deals in the alphabet that are refused", (nd * nd * nd) as u64, refused as u64, true, json!({"deals": nd}));

    // (2) long runs on a full table
    let board = b5("KsQd7h4c2s");
    let hands: Vec<(u8, u8)> = ["AsAh", "KhJh", "QhJd", "7d7c", "4d4h", "2d2h", "AdTc", "Jc9c", "Ts9d", "8s6s"].iter().map(|t| h(t)).collect();
    let n = hands.len();
    let best = 3usize; // the set of sevens
    let rot = |seat_of_best: usize| -> Vec<(u8, u8)> { (0..n).map(|i| hands[(i + n + best - seat_of_best) % n]).collect() };
    let reps = if thorough { 140_000usize } else { 66_000 };
    let mut jobs: Vec<Vec<(Deal, usize)>> = vec![];
    for s in 0..n {
        for shift in [1usize, 5] {
            jobs.push(vec![((board, rot(s)), 1), ((board, rot((s + shift) % n)), reps)]);
        }
        // seat s wins, then is absent for a long time (heads-up deals), then sits at the full table again
        jobs.push(vec![((board, rot(s)), 1), ((board, vec![hands[0], hands[1]]), reps), ((board, rot((s + 1) % n)), 3)]);
    }
    let outs = par_map(jobs.len(), |i| run_history(m, all, &jobs[i]));
    let mut calls = 0u64;
    for (i, o) in outs.into_iter().enumerate() {
        calls += jobs[i].iter().map(|x| x.1 as u64).sum::<u64>();
        if let Some((item, r, b)) = o {
            rep.violation(Violation { key: format!("history={} (repetition {} of item {} differs)", history_text(&jobs[i]), r + 1, item + 1), sub: "long-histories".into(), case: json!({"history": history_json(&jobs[i])}), expected: json!("every call gives what the same call gives alone, however many calls went before on the thread"), observed: b });
        }
    }
    rep.sub("long-histories", &format!("a full table of ten: for every seat s, a deal that s wins followed by {} repetitions (more than 2^16) of a deal that s loses (the winner one or five seats further), and by as many heads-up deals without s and then the full table again; one thread per history, every call checked", reps), calls, jobs.len() as u64, false, json!({"histories": jobs.len(), "calls": calls}));
}

pub fn replay(case: &Value) -> Value {
    let m = MRank::build();
    let all = all_cards();
    if let Some(hs) = case.get("history").and_then(|x| x.as_array()) {
        let hist: Vec<(Deal, usize)> = hs.iter().map(|d| {
            let b: Vec<u8> = d["board"].as_array().unwrap().iter().map(|x| x.as_u64().unwrap() as u8).collect();
            let holes: Vec<(u8, u8)> = d["holes"].as_array().unwrap().iter().map(|h| (h[0].as_u64().unwrap() as u8, h[1].as_u64().unwrap() as u8)).collect();
            (([b[0], b[1], b[2], b[3], b[4]], holes), d["times"].as_u64().unwrap_or(1) as usize)
        }).collect();
        let r = run_history(&m, &all, &hist);
        return json!({"history": history_text(&hist), "first_call_that_differs": r.map(|(i, k, b)| json!({"item": i + 1, "repetition": k + 1, "discrepancy": b}))});
    }
    let b: Vec<u8> = case["board"].as_array().unwrap().iter().map(|x| x.as_u64().unwrap() as u8).collect();
    let board = [b[0], b[1], b[2], b[3], b[4]];
    let holes: Vec<(u8, u8)> = case["holes"].as_array().unwrap().iter().map(|h| (h[0].as_u64().unwrap() as u8, h[1].as_u64().unwrap() as u8)).collect();
    let classes: Vec<u16> = holes.iter().map(|(a, b)| m.class7(&[*a, *b, board[0], board[1], board[2], board[3], board[4]])).collect();
    let r = check_one(&m, &all, &board, &holes, 1.0);
    json!({"board": cards_text(&board), "true_classes": classes, "discrepancy": r})
}
