//! C15: evaluator instances are independent under any interleaving or thread schedule.
//! (A) own DFS explorer: every interleaving of the actors' API calls on one thread, with
//!     the preemption bound iterated; (B) shuttle's exhaustive DFS scheduler over real
//!     spawned threads (binary `sched`); (C) compile-time Send + Sync (crate `sendsync`);
//!     (D) audit of the no-shared-state premise; (E) a labelled free-running sampling pass.

use serde_json::{json, Value};
use std::collections::BTreeSet;
use vlib::actors::*;
use vlib::par::par_map;
use vlib::report::{catch, Report, Violation};

/// enumerate all schedules (sequences of actor ids) with at most `bound` preemptions that
/// start with `prefix`; call `f` on each complete schedule
fn enumerate(lens: &[usize], prefix: &[u8], bound: Option<usize>, f: &mut dyn FnMut(&[u8])) {
    let mut rem: Vec<usize> = lens.to_vec();
    let mut pre = 0usize;
    let mut last: Option<u8> = None;
    for &a in prefix {
        if let Some(l) = last {
            if l != a && rem[l as usize] > 0 {
                pre += 1;
            }
        }
        rem[a as usize] -= 1;
        last = Some(a);
    }
    if bound.map(|b| pre > b).unwrap_or(false) {
        return;
    }
    let mut cur: Vec<u8> = prefix.to_vec();
    fn rec(rem: &mut Vec<usize>, cur: &mut Vec<u8>, pre: usize, bound: Option<usize>, f: &mut dyn FnMut(&[u8])) {
        if rem.iter().all(|r| *r == 0) {
            f(cur);
            return;
        }
        let last = cur.last().copied();
        for a in 0..rem.len() {
            if rem[a] == 0 {
                continue;
            }
            let mut p = pre;
            if let Some(l) = last {
                if l as usize != a && rem[l as usize] > 0 {
                    p += 1;
                }
            }
            if bound.map(|b| p > b).unwrap_or(false) {
                continue;
            }
            rem[a] -= 1;
            cur.push(a as u8);
            rec(rem, cur, p, bound, f);
            cur.pop();
            rem[a] += 1;
        }
    }
    rec(&mut rem, &mut cur, pre, bound, f);
}

/// all prefixes of the given length that are feasible
fn prefixes(lens: &[usize], plen: usize) -> Vec<Vec<u8>> {
    let mut out = vec![];
    fn rec(rem: &mut Vec<usize>, cur: &mut Vec<u8>, plen: usize, out: &mut Vec<Vec<u8>>) {
        if cur.len() == plen || rem.iter().all(|r| *r == 0) {
            out.push(cur.clone());
            return;
        }
        for a in 0..rem.len() {
            if rem[a] > 0 {
                rem[a] -= 1;
                cur.push(a as u8);
                rec(rem, cur, plen, out);
                cur.pop();
                rem[a] += 1;
            }
        }
    }
    rec(&mut lens.to_vec(), &mut vec![], plen, &mut out);
    out
}

/// execute one schedule with fresh actors; first divergence from the solo sequences, if any
fn execute(specs: &[Spec], solos: &[Vec<String>], sched: &[u8]) -> Option<Value> {
    let specs2: Vec<Spec> = specs.to_vec();
    let sched2: Vec<u8> = sched.to_vec();
    let r = catch(move || {
        let mut actors: Vec<Actor> = Actor::new_group(&specs2);
        let mut pos = vec![0usize; actors.len()];
        let mut obs: Vec<(u8, String)> = vec![];
        for &a in &sched2 {
            let o = actors[a as usize].step();
            pos[a as usize] += 1;
            obs.push((a, o));
        }
        obs
    });
    match r {
        Err(e) => Some(json!({"panic": e})),
        Ok(obs) => {
            let mut pos = vec![0usize; specs.len()];
            for (step, (a, o)) in obs.iter().enumerate() {
                let k = pos[*a as usize];
                if &solos[*a as usize][k] != o {
                    return Some(json!({"step": step, "actor": a, "actor_operation": k, "observed": o, "alone": solos[*a as usize][k]}));
                }
                pos[*a as usize] += 1;
            }
            None
        }
    }
}

/// solo run under catch: a panic is an observation, not a machinery failure
fn solo_safe(spec: &Spec) -> Vec<String> {
    let s = spec.clone();
    match catch(move || solo(&s)) {
        Ok(v) => v,
        Err(e) => vec![format!("PANIC alone: {}", e)],
    }
}

fn perms(n: usize) -> Vec<Vec<usize>> {
    fn rec(cur: &mut Vec<usize>, n: usize, out: &mut Vec<Vec<usize>>) {
        if cur.len() == n {
            out.push(cur.clone());
            return;
        }
        for i in 0..n {
            if !cur.contains(&i) {
                cur.push(i);
                rec(cur, n, out);
                cur.pop();
            }
        }
    }
    let mut out = vec![];
    rec(&mut vec![], n, &mut out);
    out
}

/// the actors of a hand-off group: new(), into_iter() and the first two next() calls of each evaluator
fn handoff_specs(gname: &str) -> Vec<Spec> {
    groups().iter().find(|g| g.0 == gname).unwrap().1.iter().map(|s| match s {
        Spec::Eval { cfg, scope, .. } => Spec::Abandon { cfg: cfg.clone(), scope: (scope.0, scope.1, scope.2, scope.3.min(scope.1 + 2)), take: 2 },
        o => o.clone(),
    }).collect()
}

/// one interleaving under every assignment of its operations to two fresh OS threads
fn handoff_schedule(specs: &[Spec], solos: &[Vec<String>], sched: &[u8], n_assign: usize) -> (Vec<(usize, Value)>, u64) {
    use std::sync::mpsc;
    type Job = (usize, ForceSend<Actor>);
        let mut bad: Vec<(usize, Value)> = vec![];
        let mut n = 0u64;
        for assign in 0..n_assign {
            n += 1;
            // two fresh worker threads per execution
            let mut txs = vec![];
            let (back_tx, back_rx) = mpsc::channel::<(usize, Option<ForceSend<Actor>>, String)>();
            let mut handles = vec![];
            for _w in 0..2 {
                let (tx, rx) = mpsc::channel::<Job>();
                let back = back_tx.clone();
                txs.push(tx);
                handles.push(std::thread::spawn(move || {
                    while let Ok((ai, actor)) = rx.recv() {
                        let mut actor = actor.0;
                        let r = catch(std::panic::AssertUnwindSafe(|| {
                            let o = actor.step();
                            (ForceSend(actor), o)
                        }));
                        match r {
                            Ok((actor, o)) => {
                                let _ = back.send((ai, Some(actor), o));
                            }
                            Err(e) => {
                                let _ = back.send((ai, None, format!("PANIC: {}", e)));
                            }
                        }
                    }
                }));
            }
            let mut actors: Vec<Option<Actor>> = Actor::new_group(specs).into_iter().map(Some).collect();
            let mut pos = vec![0usize; specs.len()];
            let mut failure: Option<Value> = None;
            for (step, &a) in sched.iter().enumerate() {
                let a = a as usize;
                let w = (assign >> step) & 1;
                let actor = match actors[a].take() {
                    Some(x) => x,
                    None => break,
                };
                if txs[w].send((a, ForceSend(actor))).is_err() {
                    failure = Some(json!({"step": step, "problem": "worker thread died"}));
                    break;
                }
                match back_rx.recv() {
                    Ok((ai, actor, o)) => {
                        actors[ai] = actor.map(|x| x.0);
                        let k = pos[ai];
                        if solos[ai].get(k) != Some(&o) {
                            failure = Some(json!({"step": step, "actor": ai, "actor_operation": k, "ran_on_thread": w, "observed": o, "alone": solos[ai].get(k)}));
                            break;
                        }
                        pos[ai] += 1;
                    }
                    Err(_) => {
                        failure = Some(json!({"step": step, "problem": "worker thread died"}));
                        break;
                    }
                }
            }
            // dropping the remaining actors on the main thread, then the workers
            drop(actors);
            drop(txs);
            for h in handles {
                let _ = h.join();
            }
            if let Some(f) = failure {
                if bad.len() < 2 {
                    bad.push((assign, f));
                }
            }
        }
        (bad, n)
}

/// child mode: the schedules k, k + chunks, k + 2 chunks, ... of one group. Thread creation in a process that already
/// has sixteen busy worker threads is dominated by address-space locking and TLB shoot-downs; a child process with
/// three threads does the same work several times faster
pub fn handoff_child(gname: &str, k: usize, chunks: usize) -> i32 {
    let specs = handoff_specs(gname);
    let solos: Vec<Vec<String>> = specs.iter().map(solo_safe).collect();
    let lens: Vec<usize> = solos.iter().map(|s| s.len()).collect();
    let total_ops: usize = lens.iter().sum();
    let mut scheds: Vec<Vec<u8>> = vec![];
    enumerate(&lens, &[], None, &mut |s: &[u8]| scheds.push(s.to_vec()));
    let mut n = 0u64;
    let mut bad_all: Vec<Value> = vec![];
    for (si, sched) in scheds.iter().enumerate() {
        if si % chunks != k {
            continue;
        }
        let (bad, m) = handoff_schedule(&specs, &solos, sched, 1usize << total_ops);
        n += m;
        for (assign, f) in bad {
            bad_all.push(json!({"schedule": sched, "assign": assign, "failure": f}));
        }
    }
    println!("{}", json!({"executions": n, "bad": bad_all, "lens": lens, "interleavings": scheds.len()}));
    0
}

/// child mode: run the actors of one group alone, one after the other in the given order, in
/// this fresh process, and print what each observed
pub fn child(gi: usize, pi: usize) -> i32 {
    let gs = groups();
    let specs = &gs[gi].1;
    let order = &perms(specs.len())[pi];
    let mut out: Vec<Value> = vec![Value::Null; specs.len()];
    for &i in order {
        out[i] = json!(solo_safe(&specs[i]));
    }
    println!("{}", json!({"solos": out}));
    0
}

/// expected yield of an evaluator actor from M-deals (per position, as sorted signatures are
/// not available from the model, only positions and combos are compared)
fn model_check(spec: &Spec, observed: &[String]) -> Option<String> {
    let as_eval = match spec {
        Spec::EvalDrop { cfg, scope } => Some(Spec::Eval { cfg: cfg.clone(), scope: *scope, extra: 0 }),
        _ => None,
    };
    let observed: &[String] = if as_eval.is_some() && observed.last().map(|s| s.as_str()) == Some("dropped") { &observed[..observed.len() - 1] } else { observed };
    let spec = as_eval.as_ref().unwrap_or(spec);
    if let Spec::Eval { cfg, scope, extra } = spec {
        let model = vlib::deals::model_run(cfg);
        let from = vlib::cards::pos_index(scope.0, scope.1);
        let to = vlib::cards::pos_index(scope.2, scope.3);
        let expected: usize = model[from..to].iter().map(|b| b.len()).sum();
        let sds = observed.iter().filter(|o| o.contains(" | ")).count();
        let nones = observed.iter().filter(|o| *o == "None").count();
        if observed.first().map(|s| s.as_str()) != Some("new") || observed.get(1).map(|s| s.as_str()) != Some("iterating") || sds != expected || nones != 1 + extra || observed.len() != 2 + expected + 1 + extra {
            return Some(format!("alone the actor yields {} showdowns and {} None; its own flop, ranges and scope determine {} showdowns then None forever", sds, nones, expected));
        }
        // each showdown must lie in the window and hold combos of the actor's own ranges
        let deck = vlib::cards::deck_without(&cfg.flop);
        for o in observed.iter().filter(|o| o.contains(" | ")) {
            let board = &o[..10];
            let flop_text = vlib::cards::cards_text(&cfg.flop);
            if &board[..6] != flop_text {
                return Some(format!("showdown board {} does not start with the actor's own flop {}", board, flop_text));
            }
            let t = deck.iter().position(|c| vlib::cards::card_text(*c) == board[6..8]);
            let r = deck.iter().position(|c| vlib::cards::card_text(*c) == board[8..10]);
            match (t, r) {
                (Some(t), Some(r)) if t < r => {
                    let p = vlib::cards::pos_index(t as u8, r as u8);
                    if p < from || p >= to {
                        return Some(format!("showdown at position ({},{}) outside the actor's scope", t, r));
                    }
                }
                _ => return Some(format!("turn/river {} are not cards of the actor's own deck", &board[6..10])),
            }
        }
    }
    None
}

fn audit_premise() -> (bool, Vec<String>) {
    // the premise under which call granularity suffices: no shared mutable state in src/
    let mut hits = vec![];
    fn walk(dir: &std::path::Path, hits: &mut Vec<String>) {
        if let Ok(rd) = std::fs::read_dir(dir) {
            for e in rd.flatten() {
                let p = e.path();
                if p.is_dir() {
                    walk(&p, hits);
                } else if p.extension().map(|x| x == "rs").unwrap_or(false) {
                    if let Ok(text) = std::fs::read_to_string(&p) {
                        for (ln, line) in text.lines().enumerate() {
                            let code = line.split("//").next().unwrap_or("");
                            for pat in ["static ", "thread_local!", "RefCell", "Cell<", "Mutex", "RwLock", "Atomic", "OnceLock", "OnceCell", "LazyLock", "lazy_static", "unsafe", "Rc<"] {
                                if code.contains(pat) && !code.contains("'static") {
                                    hits.push(format!("{}:{}: {}", p.display(), ln + 1, line.trim()));
                                }
                            }
                        }
                    }
                }
            }
        }
    }
    walk(std::path::Path::new("/repo/src"), &mut hits);
    (hits.is_empty(), hits)
}

pub fn run(tier: &str) -> i32 {
    let mut rep = Report::new("C15", tier);
    let thorough = tier == "thorough";

    // (C) compile-time Send + Sync
    match std::env::var("VERIF_SENDSYNC").unwrap_or_default().as_str() {
        "ok" => rep.sub("send-sync", "a crate containing only `fn ok<T: Send + Sync>()` instantiations for FlopExhaustiveEvaluator, its iterator, HandRange, HandRangeToken, CardPair, Card, MadeHand, Showdown compiles against the tree", 8, 8, true, json!({})),
        other => {
            rep.violation(Violation { key: "Send + Sync of the public types".into(), sub: "send-sync".into(), case: json!({"build_log": other}), expected: json!("the probe crate compiles"), observed: json!(std::fs::read_to_string(other.trim_start_matches("fail:")).unwrap_or_default().lines().filter(|l| l.contains("error") || l.contains("cannot be")).take(8).collect::<Vec<_>>()) });
        }
    }

    // (D) premise audit (never a verdict)
    let (clean, hits) = audit_premise();
    rep.set("assumption_no_shared_state", json!(clean));
    rep.set("shared_state_candidates", json!(hits.iter().take(20).collect::<Vec<_>>()));

    // (A0) histories of first use: every order in which the actors of a group can be run for the
    // first time in a FRESH process; a process-wide cache filled by whoever comes first shows up here
    {
        let exe = std::env::current_exe().expect("current_exe");
        let gs = groups();
        let mut jobs: Vec<(usize, usize)> = vec![];
        for (gi, g) in gs.iter().enumerate() {
            for pi in 0..perms(g.1.len()).len() {
                jobs.push((gi, pi));
            }
        }
        let outs = par_map(jobs.len(), |j| {
            let (gi, pi) = jobs[j];
            let o = std::process::Command::new(&exe).arg("C15-child").arg(gi.to_string()).arg(pi.to_string()).env("RUST_BACKTRACE", "0").output();
            match o {
                Ok(o) => {
                    let text = String::from_utf8_lossy(&o.stdout).to_string();
                    text.lines().rev().find(|l| l.starts_with('{')).and_then(|l| serde_json::from_str::<Value>(l).ok()).map(|v| v["solos"].clone()).unwrap_or(json!({"child_failed": format!("{:?}", o.status)}))
                }
                Err(e) => json!({"spawn_failed": e.to_string()}),
            }
        });
        let mut distinct = BTreeSet::new();
        for (gi, g) in gs.iter().enumerate() {
            let mine: Vec<(usize, &Value)> = jobs.iter().enumerate().filter(|(_, j)| j.0 == gi).map(|(k, j)| (j.1, &outs[k])).collect();
            let base = mine[0].1;
            distinct.insert(base.to_string());
            for (pi, o) in &mine[1..] {
                if *o != base {
                    distinct.insert(o.to_string());
                    let order = &perms(g.1.len())[*pi];
                    rep.violation(Violation { key: format!("group={} first-use order={:?}", g.0, order), sub: "first-use-orders".into(), case: json!({"group": g.0, "order": order}), expected: json!("each actor, run alone, observes the same whatever ran before it in the process"), observed: json!({"in_order_0..n": base, "in_this_order": o}) });
                }
            }
            // and the sequence is the one the actor's own inputs determine
            if let Some(arr) = base.as_array() {
                for (i, sp) in g.1.iter().enumerate() {
                    let obs: Vec<String> = arr[i].as_array().map(|a| a.iter().map(|x| x.as_str().unwrap_or("").to_string()).collect()).unwrap_or_default();
                    if let Some(problem) = model_check(sp, &obs) {
                        rep.violation(Violation { key: format!("group={} actor={} alone in a fresh process", g.0, i), sub: "own-inputs-only".into(), case: json!({"group": g.0, "actor": i}), expected: json!("the sequence depends only on the actor's own flop, ranges and scope"), observed: json!(problem) });
                    }
                }
            } else {
                rep.violation(Violation { key: format!("group={} child process", g.0), sub: "first-use-orders".into(), case: json!({"group": g.0}), expected: json!("child prints the solo sequences"), observed: base.clone() });
            }
        }
        rep.machine(jobs.len() as u64, jobs.len() as u64, jobs.len() as u64);
        rep.sub("first-use-orders", "for every actor group, every order (n!) in which its actors can be run one after the other, each order in a fresh child process: each actor's solo sequence must not depend on what ran before it, and must be the one M-deals derives from its own flop, ranges and scope. distinct_nontrivial = distinct outcomes seen (one per group when the property holds)", jobs.len() as u64, distinct.len() as u64, true, json!({"child_processes": jobs.len()}));
    }

    // (A) interleavings on one thread
    let mut total_schedules = 0u64;
    let mut total_steps = 0u64;
    for (name, specs) in groups() {
        let solos: Vec<Vec<String>> = specs.iter().map(solo_safe).collect();
        let again: Vec<Vec<String>> = specs.iter().map(solo_safe).collect();
        if let Some((i, s)) = solos.iter().enumerate().find(|(_, s)| s.iter().any(|o| o.starts_with("PANIC alone"))) {
            rep.violation(Violation { key: format!("group={} actor={} panics alone", name, i), sub: "interleavings".into(), case: json!({"group": name}), expected: json!("runs"), observed: json!(s) });
            continue;
        }
        for (i, sp) in specs.iter().enumerate() {
            if let Some(problem) = model_check(sp, &solos[i]) {
                rep.violation(Violation { key: format!("group={} actor={} alone, after other evaluators ran in this process", name, i), sub: "own-inputs-only".into(), case: json!({"group": name, "actor": i}), expected: json!("the sequence depends only on the actor's own flop, ranges and scope"), observed: json!(problem) });
            }
        }
        if solos != again {
            rep.violation(Violation { key: format!("group={} solo runs differ", name), sub: "interleavings".into(), case: json!({"group": name}), expected: json!("two solo runs observe the same"), observed: json!("nondeterministic alone") });
            continue;
        }
        let lens: Vec<usize> = solos.iter().map(|s| s.len()).collect();
        let total_ops: usize = lens.iter().sum();
        // size of the unbounded space: multinomial
        let mut space = 1f64;
        {
            let mut n = 0usize;
            for l in &lens {
                for k in 1..=*l {
                    n += 1;
                    space = space * n as f64 / k as f64;
                }
            }
        }
        // the unbounded space is explored when it is small enough; otherwise the preemption bound is iterated
        let lite = vlib::report::lite();
        let unbounded_ok = space <= if thorough { 3.0e7 } else if lite { 2.0e4 } else { 5.0e5 };
        let bounds: Vec<Option<usize>> = if lite && !unbounded_ok {
            vec![Some(0), Some(1), Some(2)]
        } else if unbounded_ok { vec![Some(0), Some(1), Some(2), None] } else if thorough { vec![Some(0), Some(1), Some(2), Some(3), Some(4), Some(5)] } else if space > 1.0e8 { vec![Some(0), Some(1), Some(2), Some(3)] } else { vec![Some(0), Some(1), Some(2), Some(3), Some(4)] };
        let pf = prefixes(&lens, 4.min(total_ops));
        let mut completed = vec![];
        for b in bounds {
            let outs = par_map(pf.len(), |i| {
                let mut n = 0u64;
                let mut bad: Vec<(Vec<u8>, Value)> = vec![];
                let mut outcomes: BTreeSet<Vec<u8>> = BTreeSet::new();
                enumerate(&lens, &pf[i], b, &mut |s: &[u8]| {
                    n += 1;
                    if n <= 4 {
                        outcomes.insert(s.to_vec());
                    }
                    if let Some(v) = execute(&specs, &solos, s) {
                        if bad.len() < 2 {
                            bad.push((s.to_vec(), v));
                        }
                    }
                });
                (n, bad)
            });
            let mut n = 0u64;
            for (k, bad) in outs {
                n += k;
                for (s, v) in bad {
                    rep.violation(Violation {
                        key: format!("group={} schedule={}", name, s.iter().map(|x| x.to_string()).collect::<String>()),
                        sub: "interleavings".into(),
                        case: json!({"group": name, "schedule": s}),
                        expected: json!("each actor observes the sequence it observes alone"),
                        observed: v,
                    });
                }
            }
            total_schedules += n;
            total_steps += n * total_ops as u64;
            completed.push(json!({"preemption_bound": b.map(|x| json!(x)).unwrap_or(json!("unbounded")), "schedules": n}));
            if rep.violations_total > 0 {
                break; // the first counterexample has the fewest preemptions
            }
        }
        rep.sub(
            &format!("interleavings/{}", name),
            &format!("own DFS explorer, one thread: actors {:?} with {} operations; every interleaving of their API calls with fresh actors per execution, each observation compared with the actor's solo sequence; preemption bound iterated", specs.iter().map(describe).collect::<Vec<_>>(), format!("{:?}", lens)),
            completed.iter().map(|c| c["schedules"].as_u64().unwrap()).sum(),
            completed.last().map(|c| c["schedules"].as_u64().unwrap()).unwrap_or(0),
            unbounded_ok,
            json!({"operations_per_actor": lens, "bounds_completed": completed, "unbounded_space": space}),
        );
        rep.sample(json!({"group": name, "actors": specs.iter().map(describe).collect::<Vec<_>>(), "solo_sequence_of_actor_0": solos[0]}));
    }
    rep.machine(total_steps, total_steps, total_schedules);

    // (A1b) long churn: the long-lived evaluator is stopped after each of its operations in turn, a solver loop then
    // builds, uses and drops an evaluator on each of N distinct flops (more than any small table, cache or interning
    // scheme can hold), and the long-lived one continues. One preemption, placed everywhere; N far beyond what the
    // interleaving search can afford.
    {
        let n_flops = if thorough { 10_000 } else { 1_500 };
        let specs = long_churn_specs(n_flops);
        let solos: Vec<Vec<String>> = specs.iter().map(solo_safe).collect();
        let la = solos[0].len();
        let lc = solos[1].len();
        let outs = par_map(la + 1, |k| {
            let mut sched: Vec<u8> = vec![0; k];
            sched.extend(std::iter::repeat(1u8).take(lc));
            sched.extend(std::iter::repeat(0u8).take(la - k));
            execute(&specs, &solos, &sched).map(|v| (k, v))
        });
        let mut n = 0u64;
        for o in outs {
            n += 1;
            if let Some((k, v)) = o {
                rep.violation(Violation { key: format!("long churn: {} flops after operation {} of the long-lived evaluator", lc, k), sub: "long-churn".into(), case: json!({"long_churn_flops": n_flops, "after_operation": k}), expected: json!("each actor observes the sequence it observes alone"), observed: v });
            }
        }
        rep.sub("long-churn", &format!("a long-lived evaluator ({} operations) stopped after each of its operations in turn while a solver loop builds, uses and drops an evaluator on each of {} distinct flops, then continued: every observation of both equals the solo run", la, lc), n, n, true, json!({"flops": lc, "split_points": la + 1}));
    }

    // (A1c) nested consumption: evaluator B is polled from INSIDE the closure that one of A's consuming adaptors
    // (for_each, fold, map + sum, filter + count, inspect + last, try_for_each, all) runs for every showdown - the
    // one interleaving a scheduler of whole calls cannot produce, because A's call has not returned yet
    {
        let gs = groups();
        let pair: Vec<Spec> = gs.iter().find(|g| g.0 == "same-flop-other-ranges").unwrap().1.clone();
        let cfgs: Vec<(vlib::deals::Config, (u8, u8, u8, u8))> = pair.iter().filter_map(|s| if let Spec::Eval { cfg, scope, .. } = s { Some((cfg.clone(), *scope)) } else { None }).collect();
        let mut n = 0u64;
        if cfgs.len() == 2 {
            let solo_of = |i: usize| -> Vec<String> {
                let (cfg, sc) = cfgs[i].clone();
                catch(move || {
                    let mut ev = cfg.evaluator();
                    ev.scope(sc.0, sc.1, sc.2, sc.3);
                    ev.into_iter().map(|sd| showdown_sig(&sd)).collect::<Vec<_>>()
                })
                .unwrap_or_else(|e| vec![format!("PANIC alone: {}", e)])
            };
            let solos = [solo_of(0), solo_of(1)];
            for via in ["for_each", "fold", "map-sum", "filter-count", "inspect-last", "try_for_each", "all"] {
                for outer in 0..2usize {
                    n += 1;
                    let inner = 1 - outer;
                    let (cfg_o, sc_o) = cfgs[outer].clone();
                    let (cfg_i, sc_i) = cfgs[inner].clone();
                    let r = catch(move || {
                        let mut eo = cfg_o.evaluator();
                        eo.scope(sc_o.0, sc_o.1, sc_o.2, sc_o.3);
                        let mut ei = cfg_i.evaluator();
                        ei.scope(sc_i.0, sc_i.1, sc_i.2, sc_i.3);
                        let io = eo.into_iter();
                        let mut ii = ei.into_iter();
                        let mut seen_o: Vec<String> = vec![];
                        let mut seen_i: Vec<String> = vec![];
                        {
                            let mut body = |sd: &espada::evaluator::Showdown| {
                                seen_o.push(showdown_sig(sd));
                                if let Some(x) = ii.next() {
                                    seen_i.push(showdown_sig(&x));
                                }
                            };
                            match via {
                                "for_each" => io.for_each(|sd| body(&sd)),
                                "fold" => io.fold((), |_, sd| body(&sd)),
                                "map-sum" => {
                                    let _: usize = io.map(|sd| { body(&sd); 1usize }).sum();
                                }
                                "filter-count" => {
                                    let _ = io.filter(|sd| { body(sd); true }).count();
                                }
                                "inspect-last" => {
                                    let _ = io.inspect(|sd| body(sd)).last();
                                }
                                "try_for_each" => {
                                    let mut io = io;
                                    let _: Result<(), ()> = io.try_for_each(|sd| { body(&sd); Ok(()) });
                                }
                                _ => {
                                    let mut io = io;
                                    let _ = io.all(|sd| { body(&sd); true });
                                }
                            }
                        }
                        // the inner one is drained afterwards
                        for x in ii {
                            seen_i.push(showdown_sig(&x));
                        }
                        (seen_o, seen_i)
                    });
                    let problem = match r {
                        Err(e) => Some(json!({"panic": e})),
                        Ok((so, si)) => {
                            if so != solos[outer] || si != solos[inner] {
                                Some(json!({"outer_showdowns": so.len(), "outer_alone": solos[outer].len(), "inner_showdowns": si.len(), "inner_alone": solos[inner].len()}))
                            } else {
                                None
                            }
                        }
                    };
                    if let Some(p) = problem {
                        rep.violation(Violation { key: format!("evaluator {} polled inside the closure of {}() over evaluator {}", inner, via, outer), sub: "nested-consumers".into(), case: json!({"via": via, "outer": outer}), expected: json!("both evaluators yield the sequences they yield alone"), observed: p });
                    }
                }
            }
        }
        rep.sub("nested-consumers", "two evaluators on the same flop: one is consumed through for_each, fold, map+sum, filter+count, inspect+last, try_for_each and all, and the closure polls the OTHER one once per showdown (either way round); both sequences equal the solo sequences", n, n, true, json!({}));
    }

    // (A2) thread hand-offs on REAL OS threads: every operation of every interleaving is run on one of two
    // fresh OS threads, for every assignment of operations to threads. The calls are strictly sequential (the
    // main thread waits for each one), so the execution is deterministic; what varies is WHICH thread runs a
    // call - values are moved between threads mid-way in every possible pattern. shuttle cannot see this: its
    // "threads" share one OS thread, so state kept in a std thread_local! looks shared to every task.
    // The work is spread over 16 child processes per group (see handoff_child).
    {
        let exe = std::env::current_exe().expect("current_exe");
        let mut total_exec = 0u64;
        for gname in ["identical", "near-flops", "other-flop-same-ranges", "shared-ranges-other-flops"] {
            let chunks = 16usize;
            let outs = par_map(chunks, |k| {
                let o = std::process::Command::new(&exe).arg("C15-handoff").arg(gname).arg(k.to_string()).arg(chunks.to_string()).env("RUST_BACKTRACE", "0").output();
                match o {
                    Ok(o) => {
                        let text = String::from_utf8_lossy(&o.stdout).to_string();
                        text.lines().rev().find(|l| l.starts_with('{')).and_then(|l| serde_json::from_str::<Value>(l).ok()).unwrap_or(json!({"child_failed": format!("{:?}", o.status)}))
                    }
                    Err(e) => json!({"child_failed": e.to_string()}),
                }
            });
            let mut n = 0u64;
            let mut lens = json!(null);
            let mut inter = 0u64;
            for o in outs {
                if o.get("child_failed").is_some() {
                    rep.violation(Violation { key: format!("group={} hand-off child process", gname), sub: "thread-handoffs".into(), case: json!({"group": gname}), expected: json!("the child process runs its schedules and reports"), observed: o });
                    continue;
                }
                n += o["executions"].as_u64().unwrap_or(0);
                lens = o["lens"].clone();
                inter = o["interleavings"].as_u64().unwrap_or(0);
                let total_ops: usize = lens.as_array().map(|a| a.iter().map(|x| x.as_u64().unwrap_or(0) as usize).sum()).unwrap_or(0);
                for b in o["bad"].as_array().cloned().unwrap_or_default() {
                    let assign = b["assign"].as_u64().unwrap_or(0);
                    let threads: String = (0..total_ops).map(|i| if (assign >> i) & 1 == 1 { 'B' } else { 'A' }).collect();
                    let sched: Vec<u64> = b["schedule"].as_array().map(|a| a.iter().map(|x| x.as_u64().unwrap_or(0)).collect()).unwrap_or_default();
                    rep.violation(Violation {
                        key: format!("group={} schedule={} threads={}", gname, sched.iter().map(|x| x.to_string()).collect::<String>(), threads),
                        sub: "thread-handoffs".into(),
                        case: json!({"group": gname, "schedule": sched, "threads": threads}),
                        expected: json!("each actor observes its solo sequence whichever OS thread runs each of its calls"),
                        observed: b["failure"].clone(),
                    });
                }
            }
            total_exec += n;
            rep.sub(&format!("thread-handoffs/{}", gname), &format!("real OS threads: actors with {} operations (new, into_iter, two next() calls each); every interleaving x every assignment of each operation to one of two fresh OS threads, calls strictly sequential; each observation compared with the solo sequence", lens), n, n, true, json!({"interleavings": inter}));
        }
        rep.machine(total_exec, total_exec, total_exec);
    }

    // (B) real threads under shuttle's exhaustive DFS scheduler
    let bin = std::env::var("VERIF_SCHED_BIN").expect("VERIF_SCHED_BIN");
    let out = std::process::Command::new(&bin).arg(tier).env("RUST_BACKTRACE", "0").output();
    match out {
        Err(e) => {
            eprintln!("MACHINERY: cannot run {}: {}", bin, e);
            std::process::exit(2);
        }
        Ok(o) => {
            let text = String::from_utf8_lossy(&o.stdout).to_string();
            let line = text.lines().rev().find(|l| l.starts_with('{')).unwrap_or("{}");
            let v: Value = serde_json::from_str(line).unwrap_or(json!({}));
            match v["groups"].as_array() {
                None => {
                    eprintln!("MACHINERY: sched produced no result (status {:?}): {}", o.status, String::from_utf8_lossy(&o.stderr).chars().take(2000).collect::<String>());
                    std::process::exit(2);
                }
                Some(gs) => {
                    let mut scheds = 0u64;
                    for g in gs {
                        let n = g["schedules"].as_u64().unwrap_or(0);
                        scheds += n;
                        if !g["failure"].is_null() {
                            rep.violation(Violation { key: format!("threads group={}", g["name"].as_str().unwrap_or("")), sub: "thread-schedules".into(), case: json!({"group": g["name"], "tier": tier}), expected: json!("every thread observes its solo sequence under every schedule"), observed: g["failure"].clone() });
                        }
                        rep.sub(&format!("thread-schedules/{}", g["name"].as_str().unwrap_or("")), g["rule"].as_str().unwrap_or(""), n, n, g["exhaustive"].as_bool().unwrap_or(false), g.clone());
                    }
                    rep.machine(scheds, scheds, scheds);
                }
            }
        }
    }

    // (B2) the same thread programs against the INSTRUMENTED copy of the crate, under a preemption-bounded DFS
    {
        let info = std::env::var("VERIF_SHADOW_INFO").unwrap_or_default();
        let sbin = std::env::var("VERIF_SHADOW_BIN").unwrap_or_default();
        if sbin.is_empty() {
            rep.set("instrumented_exploration", json!({"ran": false, "generator": info, "note": "nothing to instrument (no std::sync / thread_local! / std::thread use in /repo/src) or the instrumented copy did not compile; either way this is not a verdict - between two API calls there is then no scheduling point a scheduler could own"}));
        } else {
            let groups_s = ["two-threads/identical", "two-threads/three-players", "two-threads/other-flop-same-ranges", "two-threads/near-flops", "three-threads", "moved-between-threads", "shared-through-arc"];
            let mut results = vec![];
            let mut total = 0u64;
            let deadline = std::time::Instant::now() + std::time::Duration::from_secs(if thorough { 1200 } else { 150 });
            'outer: for bound in [0usize, 1, 2] {
                for g in groups_s {
                    if std::time::Instant::now() > deadline {
                        results.push(json!({"stopped": "time budget of the instrumented exploration used up", "before": g, "bound": bound}));
                        break 'outer;
                    }
                    // one process per (group, bound): the subject's statics are shuttle objects and must start fresh
                    let o = std::process::Command::new(&sbin).arg(tier).env("SCHED_SEQUENTIAL", "1").env("SCHED_ONLY", g).env("SCHED_PREEMPTION_BOUND", bound.to_string()).env("RUST_BACKTRACE", "0").output();
                    let v: Value = match o {
                        Ok(o) => String::from_utf8_lossy(&o.stdout).lines().rev().find(|l| l.starts_with('{')).and_then(|l| serde_json::from_str::<Value>(l).ok()).and_then(|v| v["groups"].as_array().and_then(|a| a.first().cloned())).unwrap_or(json!({"name": g, "crashed": format!("{:?}", o.status)})),
                        Err(e) => json!({"name": g, "spawn_failed": e.to_string()}),
                    };
                    let n = v["schedules"].as_u64().unwrap_or(0);
                    total += n;
                    if v.get("failure").map(|f| !f.is_null()).unwrap_or(false) {
                        rep.violation(Violation { key: format!("instrumented threads group={} preemption_bound={}", g, bound), sub: "instrumented".into(), case: json!({"group": g, "bound": bound}), expected: json!("every thread observes its solo sequence under every schedule with at most this many preemptions inside calls"), observed: v["failure"].clone() });
                    }
                    results.push(json!({"group": g, "preemption_bound": bound, "schedules": n, "complete": v["exhaustive"], "failure": v.get("failure")}));
                    if rep.violations_total > 0 {
                        break 'outer; // the first counterexample has the fewest preemptions
                    }
                }
            }
            // process-per-execution search: every execution in a FRESH process, so that the subject's statics, OnceLocks
            // and tables start empty each time and two *first* uses of a flop can be interleaved in every schedule
            if rep.violations_total == 0 {
                let g = "two-threads/x-then-y";
                let budget = std::time::Duration::from_secs(if thorough { 600 } else { 45 });
                for bound in [0usize, 1, 2] {
                    let started = std::time::Instant::now();
                    let mut prefix: Vec<(u64, u64)> = vec![];
                    let mut n = 0u64;
                    let mut complete = false;
                    let mut note = Value::Null;
                    loop {
                        let enc: String = prefix.iter().map(|(i, k)| format!("{},{}", i, k)).collect::<Vec<_>>().join(";");
                        let o = std::process::Command::new(&sbin).arg(tier).env("SCHED_SEQUENTIAL", "1").env("SCHED_ONLY", g).env("SCHED_PREEMPTION_BOUND", bound.to_string()).env("SCHED_SINGLE_PREFIX", enc).env("RUST_BACKTRACE", "0").output();
                        let v: Value = match o {
                            Ok(o) => String::from_utf8_lossy(&o.stdout).lines().rev().find(|l| l.starts_with('{')).and_then(|l| serde_json::from_str::<Value>(l).ok()).and_then(|v| v["groups"].as_array().and_then(|a| a.first().cloned())).unwrap_or(json!({"crashed": format!("{:?}", o.status)})),
                            Err(e) => json!({"crashed": e.to_string()}),
                        };
                        n += 1;
                        if v.get("crashed").is_some() {
                            note = json!({"stopped": "a child process did not report", "detail": v});
                            break;
                        }
                        if !v["failure"].is_null() {
                            let f = v["failure"].as_str().unwrap_or("").to_string();
                            if f.contains("diverged while replaying") {
                                note = json!({"stopped": "an execution did not follow its schedule prefix (nondeterminism outside the scheduler's control)", "detail": f});
                            } else {
                                rep.violation(Violation { key: format!("instrumented threads, one process per execution, group={} preemption_bound={} path={}", g, bound, prefix.iter().map(|(i, _)| i.to_string()).collect::<Vec<_>>().join("")), sub: "instrumented".into(), case: json!({"group": g, "bound": bound, "path": prefix}), expected: json!("every evaluator deals its own flop, five distinct board cards and its range's hole cards off the board, under every schedule with at most this many preemptions inside calls"), observed: json!(f) });
                            }
                            break;
                        }
                        let mut l: Vec<(u64, u64)> = v["levels"].as_array().map(|a| a.iter().map(|x| (x[0].as_u64().unwrap_or(0), x[1].as_u64().unwrap_or(1))).collect()).unwrap_or_default();
                        loop {
                            match l.last_mut() {
                                None => break,
                                Some((i, k)) => {
                                    if *i + 1 < *k {
                                        *i += 1;
                                        break;
                                    }
                                }
                            }
                            l.pop();
                        }
                        if l.is_empty() {
                            complete = true;
                            break;
                        }
                        prefix = l;
                        if started.elapsed() > budget {
                            note = json!({"stopped": "time budget used up"});
                            break;
                        }
                    }
                    total += n;
                    results.push(json!({"group": g, "mode": "one fresh process per execution", "preemption_bound": bound, "schedules": n, "complete": complete, "note": note}));
                    if rep.violations_total > 0 || !complete {
                        break;
                    }
                }
            }
            // SAMPLING (labelled, supporting): random schedules of the x-then-y group inside ONE process, where the flops
            // advance from execution to execution and the subject's process-wide state accumulates - the one situation
            // neither search above reproduces (a replaying depth-first search needs executions that start from the same state)
            if rep.violations_total == 0 {
                let g = "two-threads/x-then-y";
                let o = std::process::Command::new(&sbin).arg(tier).env("SCHED_SEQUENTIAL", "1").env("SCHED_ONLY", g).env("SCHED_RANDOM", "1").env("RUST_BACKTRACE", "0").output();
                let v: Value = match o {
                    Ok(o) => String::from_utf8_lossy(&o.stdout).lines().rev().find(|l| l.starts_with('{')).and_then(|l| serde_json::from_str::<Value>(l).ok()).and_then(|v| v["groups"].as_array().and_then(|a| a.first().cloned())).unwrap_or(json!({"crashed": format!("{:?}", o.status)})),
                    Err(e) => json!({"crashed": e.to_string()}),
                };
                if let Some(f) = v["failure"].as_str() {
                    rep.violation(Violation { key: format!("instrumented threads group={} random schedules with accumulating process state (SAMPLING)", g), sub: "instrumented-sampling".into(), case: json!({"group": g, "mode": "random"}), expected: json!("every evaluator deals from its own deck"), observed: json!(f) });
                }
                results.push(json!({"group": g, "mode": "SAMPLING - random schedules in one process, flops advancing, state accumulating; supporting evidence only", "result": v["failure"]}));
            }
            rep.machine(total.max(1), total.max(1), total);
            rep.sub("instrumented", "shuttle thread programs against the instrumented copy of /repo/src (std::sync::{Mutex,RwLock,atomic,..}, thread_local! and std::thread redirected to shuttle): every lock, atomic and thread-local access inside a call is a scheduling point; own preemption-bounded DFS scheduler, bound iterated 0, 1, 2, all schedules within the bound (or the stated cap); the group x-then-y (two first uses of one flop, then of another) is searched with ONE FRESH PROCESS PER EXECUTION, the parent holding the depth-first stack, so that process-wide state starts empty in every schedule", total, total, false, json!({"generator": info, "runs": results}));
        }
    }

    // (E) free-running sampling pass on OS threads (supporting, not deciding)
    {
        let gs = groups();
        let mut ok = true;
        let mut runs = 0u64;
        let reps = if thorough { 200 } else { 40 };
        let specs: Vec<Spec> = gs.iter().flat_map(|g| g.1.clone()).collect();
        let solos: Vec<Vec<String>> = specs.iter().map(solo_safe).collect();
        // all 16 threads leave the barrier together before every round, so that the same and colliding actors
        // really overlap in time (this is still sampling: the OS decides the interleaving)
        let k_threads = vlib::par::n_threads().min(16).max(1);
        let barrier = std::sync::Barrier::new(k_threads);
        let res = par_map(k_threads, |t| {
            let mut bad = None;
            let mut n = 0u64;
            for r in 0..reps {
                barrier.wait();
                for (i, s) in specs.iter().enumerate() {
                    if (i + t + r) % 3 == 0 {
                        n += 1;
                        let s2 = s.clone();
                        if catch(move || solo(&s2)).ok().as_ref() != Some(&solos[i]) {
                            bad = Some(describe(s));
                        }
                    }
                }
            }
            (bad, n)
        });
        for (b, n) in res {
            runs += n;
            if let Some(b) = b {
                ok = false;
                rep.violation(Violation { key: format!("free-running {}", b), sub: "free-running".into(), case: json!({"actor": b}), expected: json!("solo sequence"), observed: json!("differs when 16 OS threads run actors concurrently") });
            }
        }
        rep.set("free_running_sampling_pass", json!({"label": "SAMPLING - supporting evidence only, not part of the exhaustive claim", "os_threads": k_threads, "actor_runs": runs, "all_equal_to_solo": ok}));
    }
    // (E2) heavier concurrent load, still SAMPLING: eight OS threads drain the same multi-combo configuration at the
    // same time (hundreds of thousands of showdowns each, many hands evaluated by several threads at once); every
    // thread must see exactly the sequence one thread sees alone
    {
        use espada::hand_range::HandRange;
        let digest = || -> Result<(u64, u64), String> {
            catch(|| {
                let ranges: Vec<HandRange> = vec!["QQ+,AKs,AKo:0.5".parse().unwrap(), "JJ-99,AQs,KQs:0.25".parse().unwrap()];
                let flop = [8u8, 26, 49];
                let mut h: u64 = 0xcbf29ce484222325;
                let mut n = 0u64;
                for sd in espada::evaluator::FlopExhaustiveEvaluator::new(&vlib::cards::board_opt(&flop), &ranges) {
                    n += 1;
                    for p in sd.players().iter() {
                        h = (h ^ (p.hand().power_index() as u64) ^ ((p.is_winner() as u64) << 20)).wrapping_mul(0x100000001b3);
                    }
                    h = (h ^ sd.probability().to_bits() as u64).wrapping_mul(0x100000001b3);
                }
                (n, h)
            })
        };
        let alone = digest();
        let rounds = if thorough { 12 } else { 3 };
        let k = vlib::par::n_threads().min(8).max(1);
        let barrier = std::sync::Barrier::new(k);
        let res = par_map(k, |_t| {
            let mut diverged = 0u64;
            for _ in 0..rounds {
                barrier.wait();
                if digest() != alone {
                    diverged += 1;
                }
            }
            diverged
        });
        let diverged: u64 = res.iter().sum();
        if diverged > 0 || alone.is_err() {
            rep.violation(Violation { key: "concurrent drains of [QQ+,AKs,AKo:0.5] vs [JJ-99,AQs,KQs:0.25] on Qs8d2h".into(), sub: "free-running".into(), case: json!({"threads": k, "rounds": rounds}), expected: json!("every thread sees the sequence one thread sees alone"), observed: json!({"divergent_drains": diverged, "alone": format!("{:?}", alone)}) });
        }
        rep.set("free_running_heavy_pass", json!({"label": "SAMPLING - supporting evidence only", "os_threads": k, "rounds": rounds, "showdowns_per_drain": alone.as_ref().map(|x| x.0).unwrap_or(0), "divergent_drains": diverged}));
    }
    rep.bound("preemption inside one API call is not explored: nothing there can be intercepted (no sync primitive) and, under the audited premise, nothing there is shared");
    rep.bound("actors: at most four live evaluators / three threads; programs of 3..9 operations");
    rep.assume(&format!("no static / thread_local / interior-mutable / unsafe item in /repo/src (audited on this run: {})", if clean { "holds" } else { "DOES NOT HOLD - see shared_state_candidates; verdict rests on the explored schedules" }));
    rep.finish()
}

pub fn replay(case: &Value) -> Value {
    if let (Some(g), Some(s)) = (case["group"].as_str(), case["schedule"].as_array()) {
        if let Some((_, specs)) = groups().into_iter().find(|x| x.0 == g) {
            let solos: Vec<Vec<String>> = specs.iter().map(solo).collect();
            let sched: Vec<u8> = s.iter().map(|x| x.as_u64().unwrap() as u8).collect();
            return json!({"group": g, "schedule": sched, "divergence": execute(&specs, &solos, &sched)});
        }
    }
    if let (Some(n), Some(k)) = (case["long_churn_flops"].as_u64(), case["after_operation"].as_u64()) {
        let specs = long_churn_specs(n as usize);
        let solos: Vec<Vec<String>> = specs.iter().map(solo_safe).collect();
        let (la, lc, k) = (solos[0].len(), solos[1].len(), k as usize);
        let mut sched: Vec<u8> = vec![0; k.min(la)];
        sched.extend(std::iter::repeat(1u8).take(lc));
        sched.extend(std::iter::repeat(0u8).take(la - k.min(la)));
        return json!({"long_churn_flops": n, "after_operation": k, "divergence": execute(&specs, &solos, &sched)});
    }
    json!({"note": "thread-schedule failures carry shuttle's schedule string in the recorded observation; re-run ./check C15 quick to reproduce", "case": case})
}
