//! C04: scoped evaluators tile the enumeration. Every start state of the position line is
//! tried with every end at or after it (693,252 windows), against the unscoped run of the
//! same real evaluator (itself cross-checked with M-deals).

use espada::evaluator::FlopExhaustiveEvaluator;
use serde_json::{json, Value};
use vlib::cards::*;
use vlib::deals::*;
use vlib::par::par_map;
use vlib::report::{catch, Report, Violation};

/// (position index, combo key, probability bits)
type Item = (u32, u128, u32);

fn pos_of(i: usize, pl: &[(u8, u8)]) -> (u8, u8) {
    if i == 1176 {
        (48, 49)
    } else {
        pl[i]
    }
}

/// run the real evaluator over one window; items in yield order, or a description of what went wrong
fn run_window(cfg: &Config, ranges: &[espada::hand_range::HandRange], deckpos: &[u8; 52], scopes: &[(u8, u8, u8, u8)], extra: usize) -> Result<(Vec<Item>, u64), String> {
    let flop = cfg.flop;
    let n = cfg.ranges.len();
    let ranges = ranges.to_vec();
    let scopes = scopes.to_vec();
    let deckpos = *deckpos;
    catch(move || {
        let mut ev = FlopExhaustiveEvaluator::new(&board_opt(&flop), &ranges);
        for s in &scopes {
            ev.scope(s.0, s.1, s.2, s.3);
        }
        let mut it = ev.into_iter();
        let mut out: Vec<Item> = vec![];
        let mut calls = 0u64;
        loop {
            calls += 1;
            let sd = match it.next() {
                Some(sd) => sd,
                None => break,
            };
            let b = sd.board();
            let bi = [idx_of(&b[0]), idx_of(&b[1]), idx_of(&b[2]), idx_of(&b[3]), idx_of(&b[4])];
            if bi[0] != flop[0] || bi[1] != flop[1] || bi[2] != flop[2] {
                panic!("harness: board()[0..3] is not the flop");
            }
            let (t, r) = (deckpos[bi[3] as usize], deckpos[bi[4] as usize]);
            if t == 255 || r == 255 || t >= r {
                panic!("harness: board()[3], board()[4] = {}{} are not (D[t], D[r]) with t < r", card_text(bi[3]), card_text(bi[4]));
            }
            let mut key = 0u128;
            let ps = sd.players();
            if ps.len() != n {
                panic!("harness: wrong number of players in showdown");
            }
            for p in ps.iter() {
                key = (key << 11) | Combo::of(&p.hole_cards()).id() as u128;
            }
            out.push((pos_index(t, r) as u32, key, sd.probability().to_bits()));
            if out.len() > 1176 * 64 + 8 {
                panic!("harness cap: runaway enumeration");
            }
        }
        for _ in 0..extra {
            calls += 1;
            if it.next().is_some() {
                panic!("harness: next() returned Some after None (the evaluator must stay exhausted)");
            }
        }
        (out, calls)
    })
}

/// sort within each position group; error if positions go backwards
fn canon(mut v: Vec<Item>) -> Result<Vec<Item>, String> {
    for w in v.windows(2) {
        if w[1].0 < w[0].0 {
            return Err(format!("position index {} yielded after {}", w[1].0, w[0].0));
        }
    }
    v.sort();
    Ok(v)
}

fn configs(thorough: bool) -> Vec<(Config, usize)> {
    let mut v = vec![];
    let mk = |flop: [u8; 3], ranges: Vec<Vec<(Combo, f32)>>| {
        let label = Config::describe_ranges(&ranges);
        Config { flop, ranges, label }
    };
    // one player, one combo holding D[5] and D[30]: turn/river blocking only
    let f = [8u8, 26, 49];
    let d = deck_without(&f);
    v.push((mk(f, vec![vec![(Combo::new(d[5], d[30]), 1.0)]]), 1));
    // two players x two combos (player-vs-player and flop blocking): all windows in thorough,
    // all windows with both ends on a 6-position grid in quick
    v.push((mk(f, vec![vec![(Combo::new(d[0], d[48]), 0.5), (Combo::new(f[0], d[7]), 1.0)], vec![(Combo::new(d[0], d[20]), 1.0), (Combo::new(d[21], d[47]), 0.25)]]), if thorough { 1 } else { 6 }));
    // one-combo players holding the two LAST unseen cards / the two FIRST ones: the window ends (t,48) and the
    // starts (0,1), (1,2) fall on blocked positions (a cursor that skips blocked cards can jump over an end)
    v.push((mk(f, vec![vec![(Combo::new(d[47], d[48]), 1.0)]]), 1));
    v.push((mk(f, vec![vec![(Combo::new(d[0], d[1]), 0.5)]]), if thorough { 1 } else { 2 }));
    // three players: a one-combo player on the last unseen card beside two two-combo players
    v.push((mk(f, vec![vec![(Combo::new(d[24], d[48]), 1.0)], vec![(Combo::new(d[0], d[2]), 0.5), (Combo::new(d[10], d[11]), 1.0)], vec![(Combo::new(d[46], d[47]), 1.0), (Combo::new(d[2], d[30]), 0.25)]]), if thorough { 2 } else { 8 }));
    if thorough {
        // other flops: deck gaps at the front / at the end
        for f in [[0u8, 1, 2], [49, 50, 51]] {
            let d = deck_without(&f);
            v.push((mk(f, vec![vec![(Combo::new(d[0], d[1]), 1.0), (Combo::new(d[47], d[48]), 0.5)]]), 1));
        }
    }
    v
}

pub fn run(tier: &str) -> i32 {
    let mut rep = Report::new("C04", tier);
    let thorough = tier == "thorough";
    let pl = positions();
    for (cfg, grid) in configs(thorough) {
        let ranges = cfg.hand_ranges();
        let deck = deck_without(&cfg.flop);
        let mut deckpos = [255u8; 52];
        for (i, c) in deck.iter().enumerate() {
            deckpos[*c as usize] = i as u8;
        }
        // reference: the unscoped run of the real evaluator, cross-checked with M-deals
        let h0 = vlib::report::horizon("C04", "termination", format!("{} unscoped", cfg.key()), json!({"config": cfg.to_json(), "scopes": []}), 1176 * cfg.pi().max(1));
        let full_run = run_window(&cfg, &ranges, &deckpos, &[], 3).and_then(|(v, _)| canon(v));
        drop(h0);
        let full = match full_run {
            Ok(v) => v,
            Err(e) => {
                rep.violation(Violation { key: format!("{} unscoped", cfg.key()), sub: "unscoped-reference".into(), case: json!({"config": cfg.to_json(), "scopes": []}), expected: json!("runs to the end"), observed: json!({"panic": e}) });
                continue;
            }
        };
        let model = model_run(&cfg);
        let model_flat: Vec<(u32, u128)> = model.iter().enumerate().flat_map(|(p, b)| b.iter().map(move |(k, _)| (p as u32, *k))).collect();
        let full_flat: Vec<(u32, u128)> = full.iter().map(|x| (x.0, x.1)).collect();
        if model_flat != full_flat {
            rep.violation(Violation { key: format!("{} unscoped", cfg.key()), sub: "unscoped-reference".into(), case: json!({"config": cfg.to_json(), "scopes": []}), expected: json!({"legal_deals": model_flat.len()}), observed: json!({"yielded": full_flat.len(), "note": "the unscoped run differs from M-deals (see C02)"}) });
        }
        // offsets of each position in the flat reference
        let mut off = vec![0usize; 1178];
        {
            let mut k = 0;
            for p in 0..=1176usize {
                while k < full.len() && (full[k].0 as usize) < p {
                    k += 1;
                }
                off[p] = k;
            }
            off[1177] = full.len();
        }
        let nonempty_positions = (0..1176).filter(|p| off[p + 1] > off[*p]).count();

        // all windows, grouped by start position for the work queue
        let outs = par_map(1177, |from| {
            let a0 = pos_of(from, &pl);
            let _h = vlib::report::horizon("C04", "termination", format!("{} scopes starting at ({},{})", cfg.key(), a0.0, a0.1), json!({"config": cfg.to_json(), "scopes": [[a0.0, a0.1, 48, 49]]}), 1176 * 1177 * cfg.pi().max(1));
            let mut bad: Vec<Violation> = vec![];
            let mut calls = 0u64;
            let mut steps = 0u64;
            let mut windows = 0u64;
            for to in from..=1176usize {
                if grid > 1 && (from % grid != 0 || to % grid != 0) {
                    continue;
                }
                let a = pos_of(from, &pl);
                let b = pos_of(to, &pl);
                windows += 1;
                steps += (to - from) as u64;
                let r = run_window(&cfg, &ranges, &deckpos, &[(a.0, a.1, b.0, b.1)], 3).and_then(|(v, c)| {
                    calls += c;
                    canon(v)
                });
                let expected = &full[off[from]..off[to]];
                let ok = match &r {
                    Ok(v) => v.as_slice() == expected,
                    Err(_) => false,
                };
                if !ok && bad.len() < 3 {
                    let observed = match &r {
                        Ok(v) => {
                            let first_diff = v.iter().zip(expected.iter()).position(|(x, y)| x != y).unwrap_or(v.len().min(expected.len()));
                            json!({"yielded": v.len(), "first_difference_at": first_diff,
                                "yielded_item": v.get(first_diff).map(|x| json!({"position": pos_of(x.0 as usize, &pl), "combos": decode_key(x.1, cfg.ranges.len())})),
                                "expected_item": expected.get(first_diff).map(|x| json!({"position": pos_of(x.0 as usize, &pl), "combos": decode_key(x.1, cfg.ranges.len())}))})
                        }
                        Err(e) => json!({"panic_or_order": e}),
                    };
                    bad.push(Violation {
                        key: format!("{} scope=({},{})->({},{})", cfg.key(), a.0, a.1, b.0, b.1),
                        sub: "all-windows".into(),
                        case: json!({"config": cfg.to_json(), "scopes": [[a.0, a.1, b.0, b.1]]}),
                        expected: json!({"showdowns": expected.len(), "rule": "exactly the unscoped showdowns at positions from <= p < to, position by position, then None forever"}),
                        observed,
                    });
                }
            }
            (bad, calls, steps, windows)
        });
        let mut calls = 0u64;
        let mut steps = 0u64;
        let mut windows = 0u64;
        for (bad, c, s, w) in outs {
            calls += c;
            steps += s;
            windows += w;
            for v in bad {
                rep.violation(v);
            }
        }
        rep.machine(steps * cfg.pi(), calls, windows);
        rep.sub(
            "all-windows",
            "every window [from, to) with from among the 1176 positions and the terminal, to >= from (terminal (48,49) included; for a configuration with grid > 1 only windows whose two ends are multiples of the grid): the scoped real evaluator is run to None plus three more next() calls and compared, position by position and in position order, with the unscoped run restricted to the window. distinct_nontrivial = windows (all distinct); evaluations = windows",
            windows,
            windows,
            grid == 1,
            json!({"config": cfg.key(), "grid": grid, "windows": windows, "position_steps": steps, "next_calls": calls, "positions_with_a_legal_deal": nonempty_positions, "showdowns_unscoped": full.len()}),
        );
        rep.sample(json!({"config": cfg.key(), "window": "(10,43)->(14,18)", "showdowns": off[pos_index(14, 18)] - off[pos_index(10, 43)]}));

        // chains: every two-cut, and all three-cuts over a 49-point grid
        let mut chain_n = 0u64;
        let grid: Vec<usize> = (0..49).map(|i| i * 24).chain(std::iter::once(1176)).collect();
        let mut chains: Vec<Vec<usize>> = (0..=1176usize).map(|c| vec![0, c, 1176]).collect();
        for i in 0..grid.len() {
            for j in i..grid.len() {
                chains.push(vec![0, grid[i], grid[j], 1176]);
            }
        }
        let outs = par_map(chains.len(), |k| {
            let ch = &chains[k];
            let mut cat: Vec<Item> = vec![];
            for w in ch.windows(2) {
                let a = pos_of(w[0], &pl);
                let b = pos_of(w[1], &pl);
                match run_window(&cfg, &ranges, &deckpos, &[(a.0, a.1, b.0, b.1)], 1).and_then(|(v, _)| canon(v)) {
                    Ok(v) => cat.extend(v),
                    Err(e) => return Some(json!({"panic_or_order": e})),
                }
            }
            if cat != full {
                return Some(json!({"chained_showdowns": cat.len(), "unscoped_showdowns": full.len()}));
            }
            None
        });
        for (k, o) in outs.into_iter().enumerate() {
            chain_n += 1;
            if let Some(o) = o {
                let cuts: Vec<(u8, u8)> = chains[k].iter().map(|c| pos_of(*c, &pl)).collect();
                rep.violation(Violation { key: format!("{} chain={:?}", cfg.key(), cuts), sub: "chains".into(), case: json!({"config": cfg.to_json(), "chain": chains[k]}), expected: json!("the concatenation of the chained scopes equals the unscoped run"), observed: o });
            }
        }
        rep.sub("chains", "every cut of the line into two consecutive scopes (1177) and every cut into three over a 49-point grid: concatenated yields equal the unscoped run", chain_n, chain_n, false, json!({"config": cfg.key()}));

        // repeated scope() calls: the last call wins
        let ws: Vec<(usize, usize)> = vec![(0, 1176), (0, 0), (0, 1), (5, 900), (47, 48), (48, 49), (100, 100), (1175, 1176), (1176, 1176), (600, 1176), (300, 301), (46, 95)];
        let mut nrep = 0u64;
        for &(a0, a1) in &ws {
            for &(b0, b1) in &ws {
                nrep += 1;
                let a = (pos_of(a0, &pl), pos_of(a1, &pl));
                let b = (pos_of(b0, &pl), pos_of(b1, &pl));
                let r = run_window(&cfg, &ranges, &deckpos, &[(a.0 .0, a.0 .1, a.1 .0, a.1 .1), (b.0 .0, b.0 .1, b.1 .0, b.1 .1)], 1).and_then(|(v, _)| canon(v));
                let expected = &full[off[b0]..off[b1]];
                if r.as_ref().map(|v| v.as_slice() == expected) != Ok(true) {
                    rep.violation(Violation { key: format!("{} scope twice {:?} then {:?}", cfg.key(), a, b), sub: "repeated-scope".into(), case: json!({"config": cfg.to_json(), "scopes": [[a.0 .0, a.0 .1, a.1 .0, a.1 .1], [b.0 .0, b.0 .1, b.1 .0, b.1 .1]]}), expected: json!({"showdowns": expected.len()}), observed: json!(r.map(|v| v.len())) });
                }
            }
        }
        // scoped evaluators consumed through count / nth / fold, also after some next() calls
        {
            let grid: Vec<usize> = (0..=1176usize).step_by(84).collect();
            let mut nsc = 0u64;
            for &a0 in &grid {
                for &b0 in &grid {
                    if b0 < a0 {
                        continue;
                    }
                    let (a, b) = (pos_of(a0, &pl), pos_of(b0, &pl));
                    let expected = off[b0] - off[a0];
                    for k in [0usize, 1, 3] {
                        nsc += 1;
                        let (flop, rs) = (cfg.flop, ranges.clone());
                        let r = catch(move || {
                            let mut ev = FlopExhaustiveEvaluator::new(&board_opt(&flop), &rs);
                            ev.scope(a.0, a.1, b.0, b.1);
                            let mut it = ev.into_iter();
                            let mut taken = 0usize;
                            for _ in 0..k {
                                if it.next().is_some() {
                                    taken += 1;
                                }
                            }
                            let c1 = taken + it.count();
                            let mut ev2 = FlopExhaustiveEvaluator::new(&board_opt(&flop), &rs);
                            ev2.scope(a.0, a.1, b.0, b.1);
                            let mut it2 = ev2.into_iter();
                            let mut t2 = 0usize;
                            for _ in 0..k {
                                if it2.next().is_some() {
                                    t2 += 1;
                                }
                            }
                            let c2 = t2 + it2.fold(0usize, |x, _| x + 1);
                            let mut ev3 = FlopExhaustiveEvaluator::new(&board_opt(&flop), &rs);
                            ev3.scope(a.0, a.1, b.0, b.1);
                            let c3 = ev3.into_iter().skip(k).count() + k.min(c1);
                            (c1, c2, c3)
                        });
                        if r.as_ref().ok() != Some(&(expected, expected, expected)) {
                            rep.violation(Violation { key: format!("{} scope=({},{})->({},{}) consumers after {} next()", cfg.key(), a.0, a.1, b.0, b.1, k), sub: "scoped-consumers".into(), case: json!({"config": cfg.to_json(), "scopes": [[a.0, a.1, b.0, b.1]], "next_calls_first": k}), expected: json!({"showdowns": expected}), observed: json!(format!("{:?} (count, fold, skip+count)", r)) });
                        }
                    }
                }
            }
            rep.sub("scoped-consumers", "scoped evaluators over a 15-point grid of windows consumed through count(), fold and skip().count(), fresh and after 1 and 3 next() calls: the same number of showdowns as the window holds", nsc, nsc, false, json!({"config": cfg.key()}));
        }
        rep.sub("repeated-scope", "scope(a) followed by scope(b) behaves like scope(b) alone: all ordered pairs of 12 windows", nrep, nrep, false, json!({"config": cfg.key()}));
    }
    rep.bound(if thorough { "configurations: 4 (one player/one combo; two players x two combos with flop-blocked and mutually blocking combos; two further flops)" } else { "configurations: one player, one combo (thorough adds three more, with player-vs-player blocking and other flops)" });
    rep.bound("scope ends other than valid positions and the terminal (48,49) are outside the property");
    rep.assume("reference = the unscoped run of the same real evaluator, itself equal to M-deals (checked here, and over many more configurations by C02)");
    wide_chains(&mut rep, thorough);
    rep.finish()
}

pub fn replay(case: &Value) -> Value {
    let cfg = Config::from_json(&case["config"]);
    if let Some(n) = case.get("wide_chain_positions").and_then(|x| x.as_u64()) {
        return json!({"config": cfg.key(), "positions": n, "discrepancy": wide_chain_one(&cfg, n as usize)});
    }
    let ranges = cfg.hand_ranges();
    let deck = deck_without(&cfg.flop);
    let mut deckpos = [255u8; 52];
    for (i, c) in deck.iter().enumerate() {
        deckpos[*c as usize] = i as u8;
    }
    let scopes: Vec<(u8, u8, u8, u8)> = case["scopes"].as_array().map(|a| a.iter().map(|s| (s[0].as_u64().unwrap() as u8, s[1].as_u64().unwrap() as u8, s[2].as_u64().unwrap() as u8, s[3].as_u64().unwrap() as u8)).collect()).unwrap_or_default();
    let full = run_window(&cfg, &ranges, &deckpos, &[], 3).and_then(|(v, _)| canon(v));
    let got = run_window(&cfg, &ranges, &deckpos, &scopes, 3).and_then(|(v, _)| canon(v));
    let pl = positions();
    let summarize = |r: &Result<Vec<Item>, String>| match r {
        Ok(v) => json!({"showdowns": v.len(), "first": v.first().map(|x| pos_of(x.0 as usize, &pl)), "last": v.last().map(|x| pos_of(x.0 as usize, &pl))}),
        Err(e) => json!({"error": e}),
    };
    let expected = match (&full, scopes.last()) {
        (Ok(f), Some(s)) => {
            let (a, b) = (pos_index(s.0, s.1) as u32, pos_index(s.2, s.3) as u32);
            Some(f.iter().filter(|x| x.0 >= a && x.0 < b).count())
        }
        _ => None,
    };
    json!({"config": cfg.key(), "scopes": case["scopes"], "unscoped": summarize(&full), "scoped": summarize(&got), "expected_showdowns_in_window": expected})
}


fn wide_chain_one(c: &Config, npos: usize) -> Option<Value> {
    let pl = positions();
    let _h = vlib::report::horizon("C04", "termination", format!("{} joint scope over positions 0..{} vs chain", c.key(), npos), json!({"config": c.to_json(), "wide_chain_positions": npos}), 2 * npos as u64 * c.pi().max(1));
    let cap = npos as u64 * c.pi() + 16;
    let sig = |run: &ImplRun| -> Vec<(usize, u128, u32)> {
        let mut v: Vec<(usize, u128, u32)> = run.showdowns.iter().map(|sd| (sd.pos_unordered().unwrap_or(9999), sd.combo_key(), sd.prob.to_bits())).collect();
        v.sort();
        v
    };
    let (t0, r0) = pl[0];
    let (t1, r1) = pl[npos];
    let joint = match run_impl(c, Some((t0, r0, t1, r1)), 2, cap) {
        Ok(r) => r,
        Err(e) => return Some(json!({"joint_scope_panic": e})),
    };
    if !joint.stays_exhausted {
        return Some(json!({"problem": "the joint scope yields again after None"}));
    }
    let mut pieces: Vec<(usize, u128, u32)> = vec![];
    for p in 0..npos {
        let (a, b) = pl[p];
        let (c2, d2) = pl[p + 1];
        match run_impl(c, Some((a, b, c2, d2)), 2, cap) {
            Ok(r) => {
                if !r.stays_exhausted {
                    return Some(json!({"problem": format!("the scope of position {} yields again after None", p)}));
                }
                pieces.extend(sig(&r));
            }
            Err(e) => return Some(json!({"piece": p, "panic": e})),
        }
    }
    pieces.sort();
    let j = sig(&joint);
    if j != pieces {
        let missing = pieces.iter().filter(|x| j.binary_search(x).is_err()).count();
        let extra = j.iter().filter(|x| pieces.binary_search(x).is_err()).count();
        return Some(json!({"joint_scope_showdowns": j.len(), "chained_one_position_scopes": pieces.len(), "in_the_chain_but_not_in_the_joint_run": missing, "in_the_joint_run_but_not_in_the_chain": extra}));
    }
    None
}

/// a scope spanning several positions against the chain of one-position scopes that tile it, on wide tables (up to
/// 65,536 deals per position): whatever one iterator carries from deal to deal (counters, stamps, caches) must not
/// make the joint run differ from the pieces
fn wide_chains(rep: &mut Report, thorough: bool) {
    let f = [8u8, 26, 49];
    let cfgs = stamp_wrap_configs(f, false);
    let npos = if thorough { 6usize } else { 3 };
    let outs = par_map(cfgs.len(), |i| wide_chain_one(&cfgs[i], npos));
    let mut n = 0u64;
    for (i, o) in outs.into_iter().enumerate() {
        n += 1;
        if let Some(b) = o {
            rep.violation(Violation { key: format!("{} joint scope over positions 0..{} vs chain", cfgs[i].key(), npos), sub: "wide-chains".into(), case: json!({"config": cfgs[i].to_json(), "wide_chain_positions": npos}), expected: json!("the same showdowns from one scope over the positions as from the chain of one-position scopes"), observed: b });
        }
    }
    rep.sub("wide-chains", "the stamp-wrap tables (two players, every factorisation of 254..256 and 65534..65536 into range sizes, one combo with cards of its own): one scope over the first 3 (thorough: 6) positions against the chain of one-position scopes, up to 65,536 deals per position", n, n, false, json!({}));
}
