//! C08: enumeration terminates, in a 2 MiB stack, without panicking - dev and release builds.
//! The observation is the exit status of a child process (`drain`) per configuration; the
//! deviation that is bounded and iterated is the length of the longest run of consecutive
//! blocked deals.

use serde_json::{json, Value};
use std::io::Read;
use std::process::{Command, Stdio};
use std::time::{Duration, Instant};
use vlib::par::par_map;
use vlib::report::{Report, Violation};

#[allow(dead_code)]
#[derive(Clone, Debug)]
pub struct Case {
    family: &'static str,
    flop: &'static str,
    specs: Vec<String>,
    /// expected number of showdowns if it is known without running the subject (e.g. 0 for an
    /// empty range); only the empty-range clause of the property is judged on it
    must_be_empty: bool,
    /// length of the longest run of consecutive blocked deals (0 = unknown / irrelevant)
    blocked_run: u64,
    /// nominal number of odometer steps
    steps: u64,
}

fn case(family: &'static str, flop: &'static str, specs: &[&str], must_be_empty: bool, blocked_run: u64, steps: u64) -> Case {
    Case { family, flop, specs: specs.iter().map(|s| s.to_string()).collect(), must_be_empty, blocked_run, steps }
}

fn cases(thorough: bool) -> Vec<Case> {
    let mut v = vec![];
    // F-run: flop holds As, player 0 = {AsKs} (always blocked), player 1 = N combos without As
    let ns: &[u64] = if thorough { &[1, 2, 3, 4, 8, 16, 64, 256, 1000] } else { &[1, 2, 3, 4, 8, 16, 64] };
    for &n in ns {
        v.push(Case { family: "blocked-run", flop: "As8d2h", specs: vec!["list:AsKs".into(), format!("firstnot:As:{}", n)], must_be_empty: true, blocked_run: 1176 * n, steps: 1176 * n });
        v.push(Case { family: "blocked-run", flop: "As8d2h", specs: vec![format!("firstnot:As:{}", n), "list:AsKs".into()], must_be_empty: true, blocked_run: 1176 * n, steps: 1176 * n });
    }
    // a range that another player's single combo blocks entirely (only by player-vs-player collision)
    v.push(case("blocked-run", "Qs8d2h", &["list:AsKs", "list:AsQd,AsJd,AsTd,KsQd,KsJd"], true, 1176 * 5, 1176 * 5));
    // F-size
    let sizes: &[u64] = if thorough { &[1, 2, 254, 255, 256, 257, 258, 511, 512, 513, 768, 1024, 1326] } else { &[1, 2, 255, 256, 257, 512, 1326] };
    for &n in sizes {
        v.push(Case { family: "range-size", flop: "Qs8d2h", specs: vec![format!("first:{}", n)], must_be_empty: false, blocked_run: 0, steps: 1176 * n });
    }
    for &n in if thorough { &[255u64, 256, 257, 512][..] } else { &[256u64, 257][..] } {
        v.push(Case { family: "range-size", flop: "Qs8d2h", specs: vec![format!("first:{}", n), "list:AhKh".into()], must_be_empty: false, blocked_run: 0, steps: 1176 * n });
        v.push(Case { family: "range-size", flop: "Qs8d2h", specs: vec!["list:AhKh".into(), format!("first:{}", n)], must_be_empty: false, blocked_run: 0, steps: 1176 * n });
    }
    // empty ranges
    v.push(case("empty-range", "Qs8d2h", &["empty"], true, 0, 1176));
    v.push(case("empty-range", "Qs8d2h", &["empty", "list:AhKh"], true, 0, 1176));
    v.push(case("empty-range", "Qs8d2h", &["list:AhKh", "empty"], true, 0, 1176));
    v.push(case("empty-range", "Qs8d2h", &["text:AA", "empty", "text:KK"], true, 0, 1176 * 36));
    v.push(case("empty-range", "Qs8d2h", &["empty", "empty"], true, 0, 1176));
    v.push(case("empty-range", "Qs8d2h", &["text:"], true, 0, 1176));
    v.push(case("empty-range", "Qs8d2h", &["text:XYZ"], true, 0, 1176));
    // the same through scope(), as every worker of the multi-thread example does
    // ... including the degenerate windows a work splitter can hand out: empty at the start, in the middle, at the
    // last position and AT THE TERMINAL (48,49)->(48,49), and one that only crosses a row end
    for sc in ["scope:0,1,48,49", "scope:0,1,10,20", "scope:10,20,48,49", "scope:47,48,48,49", "scope:5,6,5,6", "scope:48,49,48,49", "scope:47,48,47,48", "scope:0,1,0,1", "scope:0,48,1,2"] {
        v.push(case("empty-range", "Qs8d2h", &[sc, "empty"], true, 0, 1176));
        v.push(case("empty-range", "Qs8d2h", &[sc, "list:AhKh", "empty"], true, 0, 1176));
        v.push(case("empty-range", "Qs8d2h", &[sc, "empty", "text:AA"], true, 0, 1176));
        v.push(case("scoped", "As8d2h", &[sc, "list:AsKs", "firstnot:As:16"], true, 1176 * 16, 1176 * 16));
        v.push(case("scoped", "Qs8d2h", &[sc, "first:257"], false, 0, 1176 * 257));
        v.push(case("scoped", "Qs8d2h", &[sc, "text:AKs", "text:AKs"], false, 0, 1176 * 16));
        v.push(case("scoped", "Kh8d3c", &[sc, "list:2c2d,AsAh", "list:AsKs,2d2h"], false, 0, 1176 * 4));
        v.push(case("scoped", "Qs8d2h", &[sc], false, 0, 1176));
    }
    // the last deals of the line are blocked (by the board, by the other player)
    v.push(case("blocked-tail", "Kh8d3c", &["list:2c2d"], false, 1, 1176));
    v.push(case("blocked-tail", "Kh8d3c", &["list:AsAh,2c2d"], false, 1, 1176 * 2));
    v.push(case("blocked-tail", "Kh8d3c", &["text:AKs", "text:AKs"], false, 1, 1176 * 16));
    v.push(case("blocked-tail", "2h2d2c", &["list:2s3c"], false, 1, 1176));
    // weights of exactly zero: the combos are still combos
    v.push(case("zero-weights", "Qs8d2h", &["text:76s:0"], false, 0, 1176 * 4));
    v.push(case("zero-weights", "Qs8d2h", &["text:AA:0,KK:0", "text:QQ:0"], false, 0, 1176 * 72));
    v.push(case("zero-weights", "Qs8d2h", &["text:AsKs:0", "text:AhKh"], false, 0, 1176));
    v.push(case("zero-weights", "Qs8d2h", &["scope:0,1,10,20", "text:76s:0,AA"], false, 0, 1176 * 10));
    // a full table
    v.push(case("full-table", "Qs8d2h", &["text:AsAh", "text:KsKh", "text:QdQc", "text:JsJh", "text:TsTh", "text:9s9h", "text:8s8h", "text:7s7h", "text:6s6h"], false, 0, 1176));
    v.push(case("full-table", "Qs8d2h", &["text:AsKs", "text:AhKh", "text:AdKd", "text:AcKc", "text:7s6s", "text:7h6h", "text:7d6d", "text:7c6c", "text:2s2d,3s3d", "text:JsJh,TsTh"], false, 0, 1176 * 4));
    v.push(case("full-table", "2h2d2c", &["text:AsKs", "text:AhKh", "text:AdKd", "text:AcKc", "text:QsJs", "text:QhJh", "text:QdJd", "text:QcJc", "text:TsTh", "text:9s9h"], false, 0, 1176));
    // a range holding a flop card, for flops that contain the first / the last card of the deck order
    for flop in ["Ah7d2c", "As7d2h", "AsKh2c", "2s2d2c", "AsAhAd", "Kc7c2c"] {
        v.push(case("flop-card-in-range", flop, &["text:22,AA,77"], false, 0, 1176 * 18));
        v.push(case("flop-card-in-range", flop, &["text:A2s+", "text:22,AA"], false, 0, 1176 * 48 * 12));
    }
    // many-way ties: the board plays for everybody
    v.push(case("full-table", "AhKdQc", &["text:2s2h", "text:3s3h", "text:4s4h", "text:5s5h", "text:6s6h", "text:7s7h"], false, 0, 1176));
    v.push(case("full-table", "AhKdQc", &["text:2s2h,2d2c", "text:3s3h", "text:4s4h", "text:5s5h", "text:6s6h,6d6c", "text:7s7h", "text:8s8h", "text:9s9h"], false, 0, 1176 * 4));
    v.push(case("full-table", "7h7d7c", &["text:2s3s", "text:2h3h", "text:2d3d", "text:2c3c", "text:4s5s", "text:4h5h", "text:4d5d"], false, 0, 1176));
    v.push(case("full-table", "AsKsQs", &["text:2h3h", "text:2d3d", "text:2c3c", "text:4h5h", "text:4d5d", "text:4c5c", "text:6h7h", "text:6d7d", "text:8h9h"], false, 0, 1176));
    // the other consuming methods of Iterator (count, nth, skip, last, fold) drain the evaluator too
    for via in ["via:count", "via:nth", "via:skip", "via:last", "via:fold"] {
        v.push(case("other-consumers", "Qs8d2h", &[via, "empty"], false, 0, 1176));
        v.push(case("other-consumers", "Qs8d2h", &[via, "list:AhKh", "empty"], false, 0, 1176));
        v.push(case("other-consumers", "As8d2h", &[via, "list:AsKs", "firstnot:As:16"], false, 1176 * 16, 1176 * 16));
        v.push(case("other-consumers", "Qs8d2h", &[via, "first:257"], false, 0, 1176 * 257));
        v.push(case("other-consumers", "Qs8d2h", &["scope:0,1,10,20", via, "text:AKs", "text:AKs"], false, 0, 1176 * 16));
    }
    // two wide ranges at once (a table indexed by both, built on the stack, would not fit 2 MiB in a dev build)
    v.push(case("two-wide-ranges", "Qs8d2h", &["scope:0,1,0,3", "first:200", "first:150"], false, 0, 2 * 200 * 150));
    v.push(case("two-wide-ranges", "Qs8d2h", &["scope:0,1,0,2", "first:1326", "first:1326"], false, 0, 1326 * 1326));
    v.push(case("two-wide-ranges", "Qs8d2h", &["scope:47,48,48,49", "first:128", "first:128", "first:5"], false, 0, 128 * 128 * 5));
    // no players
    v.push(case("no-players", "Qs8d2h", &[], false, 0, 1176));
    // realistic inputs
    v.push(case("realistic", "As8d2h", &["text:AA", "text:KK+", "text:AKs"], false, 0, 1176 * 6 * 12 * 4));
    v.push(case("realistic", "As8d2h", &["text:AsKs,AsQs", "text:22+"], false, 0, 1176 * 2 * 78));
    if thorough {
        v.push(case("realistic", "Qs8d2h", &["text:JJ+", "text:A2s+"], false, 0, 1176 * 24 * 48));
        v.push(case("realistic", "As8d2h", &["text:AA", "first:1326"], false, 1326 * 3, 1176 * 6 * 1326));
        v.push(case("realistic", "As8d2h", &["text:AsKs", "text:22+", "text:A2s+"], true, 1176 * 78 * 48, 1176 * 78 * 48));
        v.push(case("realistic", "As8d2h", &["first:1326", "text:AsKs,KsQs"], false, 0, 1176 * 2 * 1326));
    }
    v
}

#[derive(Debug, Clone)]
pub struct Obs {
    status: String,
    count: Option<u64>,
    stderr_tail: String,
    secs: f64,
}

fn run_child(bin: &str, c: &Case, horizon: Duration) -> Obs {
    let start = Instant::now();
    let mut cmd = Command::new(bin);
    cmd.arg(c.flop).args(&c.specs).env("RUST_BACKTRACE", "0").stdin(Stdio::null()).stdout(Stdio::piped()).stderr(Stdio::piped());
    let mut child = match cmd.spawn() {
        Ok(c) => c,
        Err(e) => return Obs { status: format!("spawn-failed: {}", e), count: None, stderr_tail: String::new(), secs: 0.0 },
    };
    let status = loop {
        match child.try_wait() {
            Ok(Some(st)) => break Some(st),
            Ok(None) => {
                if start.elapsed() > horizon {
                    let _ = child.kill();
                    let _ = child.wait();
                    break None;
                }
                std::thread::sleep(Duration::from_millis(3));
            }
            Err(_) => break None,
        }
    };
    let mut out = String::new();
    let mut err = String::new();
    if let Some(mut o) = child.stdout.take() {
        let _ = o.read_to_string(&mut out);
    }
    if let Some(mut e) = child.stderr.take() {
        let _ = e.read_to_string(&mut err);
    }
    let count = out.lines().find_map(|l| l.strip_prefix("count=").and_then(|n| n.trim().parse::<u64>().ok()));
    let tail: String = err.lines().filter(|l| !l.trim().is_empty()).take(3).collect::<Vec<_>>().join(" | ");
    let st = match status {
        None => format!("no exit within the horizon of {} s (non-termination)", horizon.as_secs()),
        Some(s) => {
            use std::os::unix::process::ExitStatusExt;
            if let Some(sig) = s.signal() {
                if err.contains("overflowed its stack") {
                    format!("stack exhausted (signal {})", sig)
                } else {
                    format!("killed by signal {}", sig)
                }
            } else {
                match s.code() {
                    Some(0) => "returned normally".to_string(),
                    Some(101) => "panicked".to_string(),
                    Some(c) => format!("exit status {}", c),
                    None => "unknown".to_string(),
                }
            }
        }
    };
    Obs { status: st, count, stderr_tail: tail, secs: start.elapsed().as_secs_f64() }
}

fn judge(c: &Case, o: &Obs) -> Option<String> {
    if o.status != "returned normally" {
        return Some(o.status.clone());
    }
    if o.count.is_none() {
        return Some("child printed no count".into());
    }
    if c.family == "empty-range" && o.count != Some(0) {
        return Some(format!("an empty range must make the enumeration empty, {} showdowns yielded", o.count.unwrap()));
    }
    None
}

pub fn run(tier: &str) -> i32 {
    let mut rep = Report::new("C08", tier);
    let thorough = tier == "thorough";
    let dev = std::env::var("VERIF_DRAIN_DEV").expect("VERIF_DRAIN_DEV");
    let rel = std::env::var("VERIF_DRAIN_RELEASE").expect("VERIF_DRAIN_RELEASE");
    let cs = cases(thorough);
    let horizon = Duration::from_secs(if thorough { 900 } else { 240 });
    let jobs: Vec<(usize, &str, &str)> = cs.iter().enumerate().flat_map(|(i, _)| vec![(i, "dev", dev.as_str()), (i, "release", rel.as_str())]).collect();
    let obs = par_map(jobs.len(), |j| run_child(jobs[j].2, &cs[jobs[j].0], horizon));
    let mut steps = 0u64;
    let mut max_run = 0u64;
    let mut fams = std::collections::BTreeMap::new();
    let mut statuses = std::collections::BTreeSet::new();
    for (j, o) in obs.iter().enumerate() {
        let (i, prof, _) = jobs[j];
        let c = &cs[i];
        steps += c.steps;
        max_run = max_run.max(c.blocked_run);
        *fams.entry(c.family).or_insert(0u64) += 1;
        statuses.insert(o.status.clone());
        if let Some(problem) = judge(c, o) {
            rep.violation(Violation {
                key: format!("profile={} flop={} ranges={}", prof, c.flop, c.specs.join(" ")),
                sub: c.family.into(),
                case: json!({"profile": prof, "flop": c.flop, "specs": c.specs, "family": c.family}),
                expected: json!("returns normally on a 2 MiB thread stack"),
                observed: json!({"status": problem, "count": o.count, "stderr": o.stderr_tail, "secs": o.secs, "longest_blocked_run": c.blocked_run}),
            });
        }
        if j % 9 == 0 {
            rep.sample(json!({"profile": prof, "flop": c.flop, "ranges": c.specs, "status": o.status, "count": o.count, "secs": o.secs}));
        }
    }
    rep.machine(steps, steps, jobs.len() as u64);
    rep.sub(
        "child-processes",
        "one child process per (configuration, build profile): the evaluator is drained on a thread with a 2 MiB stack; exit status / signal / timeout is the observation. Families: runs of consecutive blocked deals of growing length, range sizes around every u8 boundary, empty ranges, no players, realistic notation inputs",
        jobs.len() as u64,
        cs.len() as u64,
        false,
        json!({"cases_by_family": fams, "profiles": ["dev (overflow checks on)", "release"], "longest_blocked_run_explored": max_run, "nominal_odometer_steps": steps, "distinct_outcomes": statuses}),
    );
    rep.bound(&format!("longest run of consecutive blocked deals explored: {}", max_run));
    rep.bound(&format!("horizon per child: {} s; a child still running then is reported as non-terminating", horizon.as_secs()));
    rep.bound("states/transitions are the nominal odometer steps of the configurations (1176 x product of range sizes), walked inside the children");
    rep.assume("the drain binary adds only a counter on the 2 MiB thread; dev and release are cargo's stock profiles");
    rep.finish()
}

pub fn replay(case: &Value) -> Value {
    let dev = std::env::var("VERIF_DRAIN_DEV").expect("VERIF_DRAIN_DEV");
    let rel = std::env::var("VERIF_DRAIN_RELEASE").expect("VERIF_DRAIN_RELEASE");
    let prof = case["profile"].as_str().unwrap_or("dev");
    let flop: &'static str = Box::leak(case["flop"].as_str().unwrap().to_string().into_boxed_str());
    let c = Case { family: "replay", flop, specs: case["specs"].as_array().unwrap().iter().map(|s| s.as_str().unwrap().to_string()).collect(), must_be_empty: false, blocked_run: 0, steps: 0 };
    let o = run_child(if prof == "dev" { &dev } else { &rel }, &c, Duration::from_secs(900));
    json!({"status": o.status, "count": o.count, "stderr": o.stderr_tail})
}
