//! C05: range notation parses to its standard poker meaning.
//! Every well-formed token (generated from the grammar) x weight literals, and token lists
//! with overlaps, parsed by the real parser and compared with M-notation.

use espada::hand_range::{HandRange, HandRangeToken};
use serde_json::{json, Value};
use vlib::cards::*;
use vlib::notation::*;
use vlib::par::par_map;
use vlib::report::{catch, Report, Violation};

const SUFFIXES: [&str; 9] = ["", ":1", ":0", ":0.5", ":1.0", ":0.25", ":0.125", ":0.3", ":0.999"];

fn weight_of(suffix: &str) -> u32 {
    if suffix.is_empty() {
        1.0f32.to_bits()
    } else {
        suffix[1..].parse::<f32>().unwrap().to_bits()
    }
}

/// expected contents of a token list (later tokens overwrite)
fn expected_list(toks: &[(&Tok, &str)]) -> Contents {
    let mut c = Contents::new();
    for (t, suf) in toks {
        let w = weight_of(suf);
        for cb in &t.combos {
            c.insert(*cb, w);
        }
    }
    c
}

fn list_text(toks: &[(&Tok, &str)]) -> String {
    toks.iter().map(|(t, s)| format!("{}{}", t.text, s)).collect::<Vec<_>>().join(",")
}

fn parse_range(text: &str) -> Result<Option<Contents>, String> {
    let t = text.to_string();
    catch(move || {
        t.parse::<HandRange>().ok().map(|r| {
            // keys must be pairs in canonical form (C14); a non-canonical key is a different, unreachable combo
            for cp in r.card_pairs().keys() {
                if !(cp[0] < cp[1]) {
                    panic!("the parsed range holds the non-canonical key ({:?},{:?})", cp[0], cp[1]);
                }
            }
            contents_of(&r)
        })
    })
}

fn diff(expected: &Contents, got: &Contents) -> Value {
    let missing: Vec<String> = expected.iter().filter(|(k, _)| !got.contains_key(k)).take(4).map(|(k, _)| k.text()).collect();
    let extra: Vec<String> = got.iter().filter(|(k, _)| !expected.contains_key(k)).take(4).map(|(k, _)| k.text()).collect();
    let wrong: Vec<String> = expected.iter().filter_map(|(k, w)| got.get(k).filter(|g| *g != w).map(|g| format!("{} has {} expected {}", k.text(), f32::from_bits(*g), f32::from_bits(*w)))).take(4).collect();
    json!({"expected_combos": expected.len(), "parsed_combos": got.len(), "missing": missing, "extra": extra, "wrong_weight": wrong})
}

fn check_range_text(text: &str, expected: &Contents) -> Option<Value> {
    match parse_range(text) {
        Err(e) => Some(json!({"panic": e})),
        Ok(None) => Some(json!({"problem": "parse error"})),
        Ok(Some(got)) => {
            if &got == expected {
                None
            } else {
                Some(diff(expected, &got))
            }
        }
    }
}

fn check_token_text(text: &str, expected: &Contents) -> Option<Value> {
    let t = text.to_string();
    let r = catch(move || t.parse::<HandRangeToken>().ok().map(|tok| tok.into_iter().map(|(cp, w)| (Combo::of(&cp), w.to_bits())).collect::<Vec<_>>()));
    match r {
        Err(e) => Some(json!({"panic": e})),
        Ok(None) => Some(json!({"problem": "token parse error"})),
        Ok(Some(items)) => {
            let got: Contents = items.iter().cloned().collect();
            if items.len() != got.len() {
                return Some(json!({"problem": "the token expands to the same combo more than once", "items": items.len(), "distinct": got.len()}));
            }
            if &got == expected {
                None
            } else {
                Some(diff(expected, &got))
            }
        }
    }
}

pub fn run(tier: &str) -> i32 {
    let mut rep = Report::new("C05", tier);
    let thorough = tier == "thorough";
    let rpt = rank_pair_tokens();
    let cpt = card_pair_tokens();
    let mut all: Vec<&Tok> = rpt.iter().collect();
    all.extend(cpt.iter());

    // (a4) long parse histories on ONE thread: more distinct token texts than any small memo can hold, then every one
    // of them again (same order, reverse order): what a text parses to does not depend on what was parsed before it on
    // the thread. One thread for 1,820 texts in quick (more than a memo of 1,024 entries holds), two in thorough; they
    // run beside the other families and are joined at the end.
    let history_threads: Vec<std::thread::JoinHandle<(Vec<(usize, String, Value)>, usize)>> = {
        let pool: Vec<Tok> = all.iter().cloned().step_by(if thorough { 1 } else { 2 }).cloned().collect();
        let halves: Vec<Vec<Tok>> = if thorough { vec![pool.iter().cloned().step_by(2).collect(), pool.iter().cloned().skip(1).step_by(2).collect()] } else { vec![pool] };
        halves
            .into_iter()
            .map(|toks| {
                std::thread::spawn(move || {
                    let n = toks.len();
                    let mut order: Vec<usize> = (0..n).collect();
                    order.extend(0..n);
                    order.extend((0..n).rev());
                    let mut bad: Vec<(usize, String, Value)> = vec![];
                    for (step, &i) in order.iter().enumerate() {
                        let t = &toks[i];
                        let suf = [":0.5", "", ":0.25"][i % 3];
                        let text = format!("{}{}", t.text, suf);
                        let exp = expected_list(&[(t, suf)]);
                        let r = if step % 2 == 0 { check_token_text(&text, &exp) } else { check_range_text(&text, &exp) };
                        if let Some(b) = r {
                            bad.push((step, text, b));
                            if bad.len() >= 3 {
                                break;
                            }
                        }
                    }
                    (bad, order.len())
                })
            })
            .collect()
    };

    // (a) single tokens x weight literals, as token and as one-token range
    let outs = par_map(all.len(), |i| {
        let t = all[i];
        let mut bad = vec![];
        for suf in SUFFIXES {
            let text = format!("{}{}", t.text, suf);
            let exp = expected_list(&[(t, suf)]);
            if let Some(b) = check_token_text(&text, &exp) {
                bad.push((format!("token={}", text), text.clone(), "token", b));
            }
            if let Some(b) = check_range_text(&text, &exp) {
                bad.push((format!("range={}", text), text.clone(), "range", b));
            }
        }
        bad
    });
    let mut shapes = std::collections::BTreeMap::new();
    for t in &all {
        *shapes.entry(t.shape).or_insert(0u64) += 1;
    }
    for bad in outs {
        for (key, text, how, b) in bad {
            rep.violation(Violation { key, sub: "single-tokens".into(), case: json!({"text": text, "as": how}), expected: json!("the combos the token denotes in standard notation, each once, with the token's weight (1 when omitted)"), observed: b });
        }
    }
    rep.sub("single-tokens", "every well-formed token generated from the grammar, high card first (13 XX, 13 XX+, 78 XX-YY, 78+78 XYs/XYo, 78+78 XYs+/XYo+, 286+286 spans, 2,652 ordered card pairs = 3,640) x 9 weight literals, parsed as HandRangeToken (expanded) and as a one-token HandRange; distinct_nontrivial = distinct tokens", (all.len() * SUFFIXES.len() * 2) as u64, all.len() as u64, true, json!({"tokens_by_shape": shapes, "weight_literals": SUFFIXES}));
    rep.sample(json!({"text": "A9s+:0.5", "means": "AKs,AQs,AJs,ATs,A9s at weight 0.5 (20 combos)"}));
    rep.sample(json!({"text": "88-66", "means": "88,77,66 (18 combos)"}));

    // the quantifier's 3,796 well-formed tokens are the 3,640 above plus the 156 kicker-first spellings of the
    // single rank pairs; 'KAs' denotes the same four combos as 'AKs'
    {
        let mut nrev = 0u64;
        for h in 0..12u8 {
            for k in (h + 1)..13u8 {
                for (s, suited) in [('s', true), ('o', false)] {
                    let rp = if suited { RP::Suited(h, k) } else { RP::Offsuit(h, k) };
                    for suf in ["", ":0.5", ":0"] {
                        nrev += 1;
                        let text = format!("{}{}{}{}", RANK_CHARS[k as usize], RANK_CHARS[h as usize], s, suf);
                        let mut exp = Contents::new();
                        for cb in rp.combos() {
                            exp.insert(cb, weight_of(suf));
                        }
                        if let Some(b) = check_range_text(&text, &exp) {
                            rep.violation(Violation { key: format!("range={}", text), sub: "kicker-first-spellings".into(), case: json!({"text": text}), expected: json!("the same combos as the high-card-first spelling"), observed: b });
                        }
                        if let Some(b) = check_token_text(&text, &exp) {
                            rep.violation(Violation { key: format!("token={}", text), sub: "kicker-first-spellings".into(), case: json!({"text": text, "as": "token"}), expected: json!("the same combos as the high-card-first spelling"), observed: b });
                        }
                    }
                }
            }
        }
        rep.sub("kicker-first-spellings", "the 156 single rank-pair tokens written kicker first ('KAs', '27o') x 3 weights, as token and as range: the same combos as the high-card-first spelling (3,640 + 156 = the 3,796 well-formed tokens of the quantifier)", nrev * 2, 156, true, json!({}));
    }

    // (a3) the expansion of a token is an iterator (a vec::IntoIter: double-ended, exact size): every way of
    // consuming it gives the same combos
    {
        use espada::card::Rank;
        use espada::hand_range::{HandRangeTokenKind, RankPair};
        const R: [Rank; 13] = RANKS;
        let mut kinds: Vec<(String, Box<dyn Fn() -> HandRangeTokenKind + Sync>)> = vec![];
        for r in 0..13usize {
            kinds.push((format!("single pocket {}", RANK_CHARS[r]), Box::new(move || HandRangeTokenKind::SingleRankPair(RankPair::Pocket(R[r])))));
            kinds.push((format!("pocket {}+", RANK_CHARS[r]), Box::new(move || HandRangeTokenKind::BottomClosedRankPairRange(RankPair::Pocket(R[r])))));
            for e in (r + 1)..13usize {
                kinds.push((format!("pockets {}-{}", RANK_CHARS[r], RANK_CHARS[e]), Box::new(move || HandRangeTokenKind::DoubleClosedRankPairRange(RankPair::Pocket(R[r]), R[e]))));
            }
        }
        for h in 0..12usize {
            for k in (h + 1)..13usize {
                let nm = format!("{}{}", RANK_CHARS[h], RANK_CHARS[k]);
                kinds.push((format!("{}s", nm), Box::new(move || HandRangeTokenKind::SingleRankPair(RankPair::Suited(R[h], R[k])))));
                kinds.push((format!("{}o", nm), Box::new(move || HandRangeTokenKind::SingleRankPair(RankPair::Ofsuit(R[h], R[k])))));
                kinds.push((format!("{}s+", nm), Box::new(move || HandRangeTokenKind::BottomClosedRankPairRange(RankPair::Suited(R[h], R[k])))));
                kinds.push((format!("{}o+", nm), Box::new(move || HandRangeTokenKind::BottomClosedRankPairRange(RankPair::Ofsuit(R[h], R[k])))));
                for e in (k + 1)..13usize {
                    if thorough || (h + k + e) % 3 == 0 {
                        kinds.push((format!("{}s-{}", nm, RANK_CHARS[e]), Box::new(move || HandRangeTokenKind::DoubleClosedRankPairRange(RankPair::Suited(R[h], R[k]), R[e]))));
                        kinds.push((format!("{}o-{}", nm, RANK_CHARS[e]), Box::new(move || HandRangeTokenKind::DoubleClosedRankPairRange(RankPair::Ofsuit(R[h], R[k]), R[e]))));
                    }
                }
            }
        }
        for cb in all_combos().into_iter().step_by(97) {
            kinds.push((format!("card pair {}", cb.text()), Box::new(move || HandRangeTokenKind::SingleCardPair(cb.card_pair()))));
        }
        let outs = par_map(kinds.len(), |i| {
            let mk = &kinds[i].1;
            catch(std::panic::AssertUnwindSafe(|| vlib::iterproto::check(|| HandRangeToken::new(mk(), 0.5).into_iter(), 3)))
        });
        for (i, o) in outs.into_iter().enumerate() {
            let problem = match o {
                Ok(None) => continue,
                Ok(Some(p)) => json!(p),
                Err(e) => json!({"panic": e}),
            };
            rep.violation(Violation { key: format!("token kind={} consumed as an iterator", kinds[i].0), sub: "expansion-protocol".into(), case: json!({"kind": kinds[i].0}), expected: json!("every way of consuming the expansion (front/back pulls, rev, nth, nth_back, count, last, len) agrees with plain forward iteration"), observed: problem });
        }
        rep.sub("expansion-protocol", "the expansion iterator of every token value constructible through HandRangeToken::new (spans: a third in quick): all front/back pull sequences of length <= 3 then drained either way, rev(), nth(k)/nth_back(k) for every k, count(), last(), len()/size_hint() before every pull - all agree with plain forward iteration", kinds.len() as u64, kinds.len() as u64, thorough, json!({}));
    }

    // (b) ordered pairs of rank-pair tokens, two weights: later wins on the overlap
    let sub_ranks: Vec<char> = vec!['A', 'K', 'Q', 'J', '2'];
    let pool: Vec<&Tok> = if thorough { rpt.iter().collect() } else { rpt.iter().filter(|t| t.text.chars().all(|c| !RANK_CHARS.contains(&c) || sub_ranks.contains(&c))).collect() };
    let n = pool.len();
    let outs = par_map(n, |i| {
        let mut bad = vec![];
        let mut overlapping = 0u64;
        let mut count = 0u64;
        for j in 0..n {
            for (s1, s2) in [(":0.5", ":0.25"), ("", ":0.5"), (":0", ""), (":1", "")] {
                if !thorough && s1.is_empty() && (i + j) % 4 != 0 {
                    continue;
                }
                // an integer weight followed by a token that may consist of digits only ('AA:0,55')
                if s1.len() == 2 && !(thorough || pool[j].shape == "XX" || (i + j) % 7 == 0) {
                    continue;
                }
                count += 1;
                let l = [(pool[i], s1), (pool[j], s2)];
                let text = list_text(&l);
                let exp = expected_list(&l);
                let overlap = exp.len() < pool[i].combos.len() + pool[j].combos.len();
                if overlap {
                    overlapping += 1;
                }
                if let Some(b) = check_range_text(&text, &exp) {
                    if bad.len() < 3 {
                        bad.push((text, b));
                    }
                }
                // the same text before and after an overlapping token: the repeat wins its combos back
                if overlap && i != j && s1 == ":0.5" {
                    count += 1;
                    let l3 = [(pool[i], ":0.5"), (pool[j], ":0.25"), (pool[i], ":0.5")];
                    let text3 = list_text(&l3);
                    if let Some(b) = check_range_text(&text3, &expected_list(&l3)) {
                        if bad.len() < 3 {
                            bad.push((text3, b));
                        }
                    }
                }
            }
        }
        (bad, overlapping, count)
    });
    let mut overlapping = 0u64;
    let mut lists = 0u64;
    for (bad, o, cnt) in outs {
        overlapping += o;
        lists += cnt;
        for (text, b) in bad {
            rep.violation(Violation { key: format!("range={}", text), sub: "token-pairs".into(), case: json!({"text": text}), expected: json!("union of the tokens' combos; on the overlap the later token's weight"), observed: b });
        }
    }
    rep.sub("token-pairs", if thorough { "all 988x988 ordered pairs of rank-pair tokens with weights (:0.5,:0.25) and (none,:0.5); distinct_nontrivial = lists whose tokens overlap" } else { "all ordered pairs of the rank-pair tokens over ranks A,K,Q,J,2 (80 tokens) with weights (:0.5,:0.25), a quarter of them also with (none,:0.5); distinct_nontrivial = lists whose tokens overlap" }, lists, overlapping, thorough, json!({"tokens": n}));

    // (c) a card-pair token before and after each kind of rank-pair token covering it
    let step = if thorough { 1 } else { 7 };
    let cps: Vec<&Tok> = cpt.iter().step_by(step).collect();
    let outs = par_map(cps.len(), |i| {
        let cp = cps[i];
        let cb = cp.combos[0];
        let mut bad = vec![];
        let mut n = 0u64;
        // the single rank pair, the shortest '+' token and the shortest span covering the combo
        let mut covering: Vec<&Tok> = vec![];
        for shape_group in [&["XX", "XYs", "XYo"][..], &["XX+", "XYs+", "XYo+"][..], &["XX-YY", "XYs-XZs", "XYo-XZo"][..]] {
            if let Some(t) = rpt.iter().filter(|t| shape_group.contains(&t.shape) && t.combos.contains(&cb)).min_by_key(|t| t.combos.len()) {
                covering.push(t);
            }
        }
        for t in covering {
            // different weights, and the SAME weight on both (a shortcut that takes "this combo already has my
            // weight" for "my rank pair is already there" shows only then)
            for l in [[(t, ":0.5"), (cp, ":0.25")], [(cp, ":0.25"), (t, ":0.5")], [(cp, ":0.5"), (t, ":0.5")], [(cp, ""), (t, "")]] {
                n += 1;
                let text = list_text(&l);
                let exp = expected_list(&l);
                if let Some(b) = check_range_text(&text, &exp) {
                    bad.push((text, b));
                }
            }
        }
        (bad, n)
    });
    let mut n_c = 0u64;
    for (bad, k) in outs {
        n_c += k;
        for (text, b) in bad {
            rep.violation(Violation { key: format!("range={}", text), sub: "card-pair-vs-rank-pair".into(), case: json!({"text": text}), expected: json!("later token's weight on the shared combo"), observed: b });
        }
    }
    rep.sub("card-pair-vs-rank-pair", "each ordered card-pair token (every 7th in quick) before and after the single rank pair, the shortest '+' token and the shortest span that cover it, with different weights and with the same weight", n_c, n_c, thorough, json!({}));

    // (c2) a rank pair that is already PARTLY there when its token arrives: for every rank pair and every one of its
    // combos c (and the next combo d): "c:w,RP:w", "c:w,d:0.25,RP:w" and "RP:w" after the whole rank pair minus c -
    // the later token still brings all of its combos, at its weight
    {
        let singles: Vec<&Tok> = rpt.iter().filter(|t| ["XX", "XYs", "XYo"].contains(&t.shape)).collect();
        let outs = par_map(singles.len(), |i| {
            let t = singles[i];
            let mut bad = vec![];
            let mut n = 0u64;
            let find_cp = |cb: &Combo| cpt.iter().find(|x| x.combos[0] == *cb).unwrap();
            for (k, cb) in t.combos.iter().enumerate() {
                let c1 = find_cp(cb);
                let c2 = find_cp(&t.combos[(k + 1) % t.combos.len()]);
                for w in ["", ":0.5"] {
                    let mut ls: Vec<Vec<(&Tok, &str)>> = vec![vec![(c1, w), (t, w)], vec![(c1, w), (c2, ":0.25"), (t, w)], vec![(c2, ":0.25"), (c1, w), (t, w)]];
                    let mut all_but: Vec<(&Tok, &str)> = t.combos.iter().filter(|x| *x != cb).map(|x| (find_cp(x), w)).collect();
                    all_but.push((t, w));
                    ls.push(all_but);
                    for l in ls {
                        n += 1;
                        let text = list_text(&l);
                        let exp = expected_list(&l);
                        if let Some(b) = check_range_text(&text, &exp) {
                            if bad.len() < 2 {
                                bad.push((text, b));
                            }
                        }
                    }
                }
            }
            (bad, n)
        });
        let mut n_p = 0u64;
        for (bad, k) in outs {
            n_p += k;
            for (text, b) in bad {
                rep.violation(Violation { key: format!("range={}", text), sub: "partly-present-rank-pair".into(), case: json!({"text": text}), expected: json!("every combo of the later rank-pair token, at its weight"), observed: b });
            }
        }
        rep.sub("partly-present-rank-pair", "for each of the 169 rank pairs and each of its combos c: the single combo (alone, with a neighbour at another weight on either side, and all combos but c) followed by the rank pair's own token at the SAME weight (1 and 0.5)", n_p, n_p, true, json!({}));
    }

    // (d) triples over a sub-alphabet on ranks A,K,Q
    let mut tri: Vec<&Tok> = rpt.iter().filter(|t| t.text.chars().all(|c| !RANK_CHARS.contains(&c) || ['A', 'K', 'Q'].contains(&c))).collect();
    for t in ["AsKs", "KsAs", "AhKd", "KdAh", "QsQh", "QhQs", "AsAh", "AdAc", "KsQs", "QdKd", "AcQh", "QsAd", "KhKd", "KcKs", "AhQh", "QcKh", "AsQs"] {
        tri.push(cpt.iter().find(|x| x.text == t).unwrap());
    }
    if !thorough {
        tri = tri.into_iter().step_by(3).collect();
    }
    let nt = tri.len();
    let outs = par_map(nt * nt, |ij| {
        let (i, j) = (ij / nt, ij % nt);
        let mut bad = vec![];
        for k in 0..nt {
            // three different weights; and the same text twice around another token (the later
            // occurrence must win its combos back)
            let mut ls = vec![[(tri[i], ""), (tri[j], ":0.5"), (tri[k], ":0.25")]];
            if k == i {
                ls.push([(tri[i], ":0.5"), (tri[j], ""), (tri[i], ":0.5")]);
                ls.push([(tri[i], ""), (tri[j], ":0.25"), (tri[i], "")]);
            }
            for l in ls {
                let text = list_text(&l);
                let exp = expected_list(&l);
                if let Some(b) = check_range_text(&text, &exp) {
                    if bad.len() < 2 {
                        bad.push((text, b));
                    }
                }
            }
        }
        bad
    });
    for bad in outs {
        for (text, b) in bad {
            rep.violation(Violation { key: format!("range={}", text), sub: "token-triples".into(), case: json!({"text": text}), expected: json!("tokens applied in order, later overwrites"), observed: b });
        }
    }
    rep.sub("token-triples", "all ordered triples over a sub-alphabet of tokens on ranks A,K,Q (23 rank-pair tokens + 17 card pairs; every third token in quick), weights (1, 0.5, 0.25); plus every A,B,A list with the textually identical token before and after another one", (nt * nt * nt + 2 * nt * nt) as u64, (nt * nt * nt + 2 * nt * nt) as u64, false, json!({"tokens": nt}));

    // (d2) long and unusual weight literals: the weight is the f32 nearest the literal, however many digits
    {
        let mut lits: Vec<String> = vec![];
        for base in ["0.6666666666", "0.70710678118654752", "0.3333333333333333333333", "0.0000000001", "0.000000000000000000001", "1.0000000000000", "0.4294967295", "0.4294967296", "0.9999999999", "0.99999999999999999999", "0.5000000000000000000000000000001", "0.1000000000", "0.00000000000000000000000000000000000000000001", "0.123456789012345678901234567890123456789"] {
            lits.push(format!(":{}", base));
        }
        // literals a hair above / below the midpoint of two neighbouring f32 values: parsing through f64 first lands
        // exactly on the midpoint and then rounds to even
        for b in [0.5f32, 0.25, 0.1, 0.3, 0.7, 0.99999994, 0.0625, 0.33333334] {
            let up = f32::from_bits(b.to_bits() + 1);
            let mid = (b as f64 + up as f64) / 2.0;
            let exact = format!("{:.70}", mid);
            let exact = exact.trim_end_matches('0').to_string();
            lits.push(format!(":{}1", exact));
            lits.push(format!(":{}", &exact[..exact.len() - 1]));
            lits.push(format!(":{}", exact));
        }
        for digits in 5..=12usize {
            lits.push(format!(":0.{}", "7".repeat(digits)));
            lits.push(format!(":0.{}1", "0".repeat(digits)));
        }
        let heads: Vec<&Tok> = ["TT-88", "AQs-A9s", "KJo-K9o", "99+", "A9s+", "K9o+", "44", "JTs", "72o", "AsKs"].iter().map(|h| all.iter().find(|t| t.text == *h).copied().unwrap()).collect();
        let mut n = 0u64;
        for l in &lits {
            for h in &heads {
                n += 1;
                let text = format!("{}{}", h.text, l);
                let mut exp = Contents::new();
                let w = l[1..].parse::<f32>().unwrap().to_bits();
                for cb in &h.combos {
                    exp.insert(*cb, w);
                }
                if let Some(b) = check_range_text(&text, &exp) {
                    rep.violation(Violation { key: format!("range={}", text), sub: "long-weights".into(), case: json!({"text": text}), expected: json!("the f32 nearest the literal"), observed: b });
                }
            }
        }
        rep.sub("long-weights", "54 weight literals of 5 to 70 fraction digits (values around u32::MAX/10^10, repeated digits, tiny values, 1.000..., and for eight f32 values the exact midpoint to the next float, a hair above it and a hair below it) behind one token of each shape", n, n, false, json!({"literals": lits.len()}));
    }

    // (d2b) every weight literal of up to three fraction digits (all digit pairs and triples a text-level rewrite
    // could trip over), behind a token that follows another one in a list
    {
        let mut lits: Vec<String> = vec!["0".into(), "1".into(), "1.0".into(), "1.00".into(), "1.000".into()];
        for d in 1..=3usize {
            for v in 0..10u32.pow(d as u32) {
                lits.push(format!("0.{:0width$}", v, width = d));
            }
        }
        let find = |s: &str| all.iter().find(|t| t.text == s).copied().unwrap();
        let heads = [find("AKs"), find("QQ+"), find("AsKs")];
        let first = find("JJ");
        let outs = par_map(lits.len(), |i| {
            let mut bad = vec![];
            for h in &heads {
                let text = format!("{}:0.5,{}:{}", first.text, h.text, lits[i]);
                let mut exp = Contents::new();
                for cb in &first.combos {
                    exp.insert(*cb, 0.5f32.to_bits());
                }
                let w = lits[i].parse::<f32>().unwrap().to_bits();
                for cb in &h.combos {
                    exp.insert(*cb, w);
                }
                if let Some(b) = check_range_text(&text, &exp) {
                    bad.push((text, b));
                }
            }
            bad
        });
        let mut nb = 0;
        for bad in outs {
            for (text, b) in bad {
                nb += 1;
                if nb <= 6 {
                    rep.violation(Violation { key: format!("range={}", text), sub: "short-weights".into(), case: json!({"text": text}), expected: json!("the f32 nearest the literal on the second token's combos, 0.5 on the first's"), observed: b });
                } else {
                    rep.violations_total += 1;
                }
            }
        }
        rep.sub("short-weights", "ALL weight literals 0, 1, 1.0, 1.00, 1.000 and 0.d, 0.dd, 0.ddd (1,115) behind AKs, QQ+ and AsKs as the second token of a list", (lits.len() * 3) as u64, lits.len() as u64, true, json!({"literals": lits.len()}));
    }

    // (d3) a list whose first tokens already cover all 1326 combos, followed by overriding tokens
    {
        let mut cover: Vec<(&Tok, &str)> = vec![];
        let find = |s: &str| all.iter().find(|t| t.text == s).copied().unwrap();
        cover.push((find("22+"), ""));
        for h in 0..12usize {
            let k = if h == 11 { String::new() } else { "+".to_string() };
            cover.push((find(&format!("{}2s{}", RANK_CHARS[h], k)), ":0.5"));
            cover.push((find(&format!("{}2o{}", RANK_CHARS[h], k)), ":0.25"));
        }
        let overrides: Vec<(&Tok, &str)> = vec![(find("QQ+"), ":0"), (find("AsKs"), ":0.125"), (find("72o"), ""), (find("A5s-A2s"), ":0.3"), (find("2c2d"), ":0.999"), (find("KsAs"), "")];
        let mut n = 0u64;
        for upto in 0..=overrides.len() {
            for start in 0..overrides.len() {
                let mut l = cover.clone();
                for k in 0..upto {
                    l.push(overrides[(start + k) % overrides.len()]);
                }
                n += 1;
                let text = list_text(&l);
                let exp = expected_list(&l);
                if exp.len() != 1326 {
                    panic!("harness: the cover list does not cover all combos");
                }
                if let Some(b) = check_range_text(&text, &exp) {
                    rep.violation(Violation { key: format!("range={}...{}", &text[..20], &text[text.len().saturating_sub(40)..]), sub: "full-cover-then-override".into(), case: json!({"text": text}), expected: json!("tokens after a prefix that already covers all 1326 combos still apply"), observed: b });
                }
            }
        }
        rep.sub("full-cover-then-override", "a 25-token list covering all 1326 combos (22+, X2s+ and X2o+ for every high card) followed by 0..=6 overriding tokens in every rotation", n, n, false, json!({}));
    }

    // (d4) very long token lists: every token counts, however many there are
    {
        let find = |s: &str| all.iter().find(|t| t.text == s).copied().unwrap();
        let combos = all_combos();
        let mut cases: Vec<(String, Contents)> = vec![];
        // an explicit 1326-combo export followed by overriding tokens
        let mut l: Vec<(&Tok, &str)> = combos.iter().map(|c| (cpt.iter().find(|t| t.combos[0] == *c).unwrap(), ":0.5")).collect();
        l.push((find("AA"), ":0.25"));
        l.push((find("72o"), ""));
        cases.push((list_text(&l), expected_list(&l)));
        // many repeats of one token, then others
        for reps in [1325usize, 1326, 1327, 3000] {
            let mut l: Vec<(&Tok, &str)> = vec![(find("KK"), ":0.5"); reps];
            l.push((find("QQ+"), ":0.25"));
            l.push((find("AsKs"), ""));
            cases.push((list_text(&l), expected_list(&l)));
        }
        // empty items in between (",,") do not consume anything
        let mut t = vec!["".to_string(); 1400].join(",");
        t.push_str(",JTs:0.5");
        cases.push((t, expected_list(&[(find("JTs"), ":0.5")])));
        let mut n = 0u64;
        for (text, exp) in &cases {
            n += 1;
            if let Some(b) = check_range_text(text, exp) {
                rep.violation(Violation { key: format!("range={}...({} bytes)...{}", &text[..text.len().min(24)], text.len(), &text[text.len().saturating_sub(24)..]), sub: "long-lists".into(), case: json!({"text": text}), expected: json!("every token of a long list applies, later ones last"), observed: b });
            }
        }
        rep.sub("long-lists", "lists of 1,327 to 3,002 tokens: the explicit export of all 1326 combos followed by overriding tokens, one token repeated 1325/1326/1327/3000 times followed by two others, 1400 empty items followed by a token", n, n, false, json!({}));
    }

    // (e) spaces at every offset; empty input
    let texts: Vec<String> = vec!["QQ+,A9s+:0.5,88-66,AQs-A9s:0.25,44,JTs,72o,AsKs".to_string(), "22+:0.3".into(), "AKo-A2o,KsAs:0".into(), "T9s+,T9o+:1.0".into()];
    let mut n_sp = 0u64;
    for base in &texts {
        let exp = match parse_range(base) {
            Ok(Some(c)) => c,
            _ => continue,
        };
        for off in 0..=base.len() {
            for sp in [" ", "   "] {
                let mut t = base.clone();
                t.insert_str(off, sp);
                n_sp += 1;
                if let Some(b) = check_range_text(&t, &exp) {
                    rep.violation(Violation { key: format!("range={:?}", t), sub: "spaces".into(), case: json!({"text": t}), expected: json!("spaces are ignored"), observed: b });
                }
            }
        }
    }
    for t in ["", " ", "    "] {
        n_sp += 1;
        if let Some(b) = check_range_text(t, &Contents::new()) {
            rep.violation(Violation { key: format!("range={:?}", t), sub: "spaces".into(), case: json!({"text": t}), expected: json!("the empty range"), observed: b });
        }
    }
    rep.sub("spaces", "one and three spaces inserted at every byte offset of four multi-token texts (each first checked against M-notation by the families above); the empty string and blank strings give the empty range", n_sp, n_sp, false, json!({}));
    // tie the space bases themselves to the model
    {
        let find = |s: &str| all.iter().find(|t| t.text == s).copied().unwrap();
        let l = [(find("QQ+"), ""), (find("A9s+"), ":0.5"), (find("88-66"), ""), (find("AQs-A9s"), ":0.25"), (find("44"), ""), (find("JTs"), ""), (find("72o"), ""), (find("AsKs"), "")];
        if let Some(b) = check_range_text(&texts[0], &expected_list(&l)) {
            rep.violation(Violation { key: format!("range={}", texts[0]), sub: "spaces".into(), case: json!({"text": texts[0]}), expected: json!("statement's own example list"), observed: b });
        }
    }
    rep.bound("token lists: ordered pairs (all in thorough), triples over a 40-token sub-alphabet, not all finite lists");
    rep.bound("weights: nine literals in [0,1]; the weight grammar itself is C10's");
    rep.assume("M-notation (vlib/src/notation.rs) is the standard meaning of the notation; the f32 nearest a literal is taken from Rust's correctly rounded f32::from_str");
    {
        let mut steps = 0u64;
        for h in history_threads {
            let (bad, n) = h.join().unwrap_or((vec![(0, "thread".into(), json!({"problem": "the history thread died"}))], 0));
            steps += n as u64;
            for (step, text, b) in bad {
                rep.violation(Violation { key: format!("text={} as call {} of a long parse history on one thread", text, step + 1), sub: "parse-histories".into(), case: json!({"text": text, "history_step": step}), expected: json!("the combos the text denotes, whatever was parsed before on the thread"), observed: b });
            }
        }
        rep.sub("parse-histories", "one thread (thorough: two) parsing 1,820 distinct token texts one after the other, then all of them again in the same order and in reverse order (alternately as token and as range): every result equals the text's own meaning", steps, steps, false, json!({}));
    }
    rep.finish()
}

pub fn replay(case: &Value) -> Value {
    let text = case["text"].as_str().unwrap_or("").to_string();
    let r = parse_range(&text);
    json!({"text": text, "parsed": match r { Ok(Some(c)) => json!({"combos": c.len(), "contents": contents_text(&c)}), Ok(None) => json!("parse error"), Err(e) => json!({"panic": e}) }})
}
