//! C02: the enumeration yields every legal deal exactly once and nothing else.
//! Explicit-state exploration: every next() transition of the real iterator, for every
//! configuration of a colliding alphabet, compared as a multiset with M-deals.

use serde_json::{json, Value};
use vlib::cards::*;
use vlib::deals::*;
use vlib::par::par_map;
use vlib::report::{Report, Violation};

pub const FLOPS8: [[u8; 3]; 8] = [
    [0, 1, 2],    // As Ah Ad : deck starts at Ac
    [49, 50, 51], // 2h 2d 2c : deck ends at 2s
    [0, 6, 51],   // As Kd 2c : both deck ends are flop cards
    [8, 26, 49],  // Qs 8d 2h : README flop
    [51, 0, 6],   // 2c As Kd : same cards, given out of deck order
    [29, 30, 31], // 7h 7d 7c
    [20, 21, 18], // 9s 9h Td, unsorted
    [7, 4, 37],   // Kc Ks 5h, unsorted
];

/// the colliding combo alphabet relative to a flop
pub fn alphabet(flop: &[u8; 3]) -> Vec<Combo> {
    let d = deck_without(flop);
    let (x0, x1, y, z0, z1) = (d[0], d[1], d[24], d[47], d[48]);
    vec![
        Combo::new(x0, x1),
        Combo::new(x0, y),
        Combo::new(x1, y),
        Combo::new(y, z1),
        Combo::new(z0, z1),
        Combo::new(flop[0], x0),
        Combo::new(flop[0], flop[1]),
        Combo::new(flop[2], z1),
    ]
}

/// alphabet for three players: three pairwise-disjoint combos exist (x0x1, z0z1, w0w1), the others collide
pub fn alphabet3(flop: &[u8; 3]) -> Vec<Combo> {
    let d = deck_without(flop);
    let (x0, x1, y, z0, z1, w0, w1) = (d[0], d[1], d[24], d[47], d[48], d[10], d[11]);
    vec![
        Combo::new(x0, x1),
        Combo::new(x0, y),
        Combo::new(y, z1),
        Combo::new(z0, z1),
        Combo::new(w0, w1),
        Combo::new(flop[0], w0),
    ]
}

const DYADIC: [f32; 3] = [1.0, 0.5, 0.25];
const NONDYADIC: [f32; 3] = [0.3, 0.7, 0.9];

fn subset_range(alpha: &[Combo], mask: u32, player: usize, weights: &[f32; 3]) -> Vec<(Combo, f32)> {
    let mut v = vec![];
    for (i, c) in alpha.iter().enumerate() {
        if mask >> i & 1 == 1 {
            v.push((*c, weights[(player + i) % 3]));
        }
    }
    v
}

fn cfg(flop: [u8; 3], ranges: Vec<Vec<(Combo, f32)>>) -> Config {
    let label = Config::describe_ranges(&ranges);
    Config { flop, ranges, label }
}

fn first_n(n: usize) -> Vec<(Combo, f32)> {
    all_combos().into_iter().take(n).map(|c| (c, 1.0)).collect()
}
fn last_n(n: usize) -> Vec<(Combo, f32)> {
    let a = all_combos();
    a[a.len() - n..].iter().map(|c| (*c, DYADIC[c.id() % 3])).collect()
}

struct Family {
    name: &'static str,
    rule: &'static str,
    configs: Vec<Config>,
    exact_prob: bool,
    exhaustive: bool,
}

fn small_masks(bits: u32, max_size: u32) -> Vec<u32> {
    (1u32..(1 << bits)).filter(|m| m.count_ones() <= max_size).collect()
}

fn families(thorough: bool) -> Vec<Family> {
    let mut fams = vec![];
    // n = 1: all non-empty subsets
    let mut v = vec![];
    for f in FLOPS8 {
        let a = alphabet(&f);
        for m in 1u32..256 {
            v.push(cfg(f, vec![subset_range(&a, m, 0, &DYADIC)]));
        }
    }
    fams.push(Family { name: "n1-all-subsets", rule: "one player, every non-empty subset of the 8-combo colliding alphabet (first/last deck cards, shared cards, one and two flop cards), 8 flops, dyadic weights", configs: v, exact_prob: true, exhaustive: true });
    // n = 2
    let mut v = vec![];
    let masks: Vec<u32> = if thorough { (1u32..256).collect() } else { small_masks(8, 2) };
    for f in FLOPS8 {
        let a = alphabet(&f);
        for &m0 in &masks {
            for &m1 in &masks {
                v.push(cfg(f, vec![subset_range(&a, m0, 0, &DYADIC), subset_range(&a, m1, 1, &DYADIC)]));
            }
        }
    }
    fams.push(Family { name: "n2-subset-pairs", rule: if thorough { "two players, all 255x255 ordered pairs of non-empty subsets of the alphabet, 8 flops" } else { "two players, all ordered pairs of subsets of size <= 2 (36x36), 8 flops" }, configs: v, exact_prob: true, exhaustive: true });
    // n = 3
    let mut v = vec![];
    let masks = small_masks(6, 2);
    let flops: &[[u8; 3]] = if thorough { &FLOPS8 } else { &FLOPS8[2..5] };
    for f in flops {
        let a = alphabet3(f);
        for &m0 in &masks {
            for &m1 in &masks {
                for &m2 in &masks {
                    v.push(cfg(*f, vec![subset_range(&a, m0, 0, &DYADIC), subset_range(&a, m1, 1, &DYADIC), subset_range(&a, m2, 2, &DYADIC)]));
                }
            }
        }
    }
    fams.push(Family { name: "n3-subset-triples", rule: "three players, all ordered triples of subsets of size <= 2 (21^3) over a six-combo alphabet with three pairwise-disjoint combos, three colliding ones and one on the flop", configs: v, exact_prob: true, exhaustive: true });
    // range sizes
    let mut v = vec![];
    let f = FLOPS8[3];
    let sizes: Vec<usize> = if thorough {
        (1..=1326).collect()
    } else {
        vec![1, 2, 3, 127, 128, 129, 254, 255, 256, 257, 258, 511, 512, 513, 767, 768, 1023, 1024, 1025, 1325, 1326]
    };
    for &n in &sizes {
        v.push(cfg(f, vec![first_n(n)]));
        if thorough {
            v.push(cfg(f, vec![last_n(n)]));
        }
    }
    for n in [255usize, 256, 257] {
        let a = alphabet(&f);
        v.push(cfg(f, vec![first_n(n), subset_range(&a, 0b11, 1, &DYADIC)]));
        v.push(cfg(f, vec![subset_range(&a, 0b11, 0, &DYADIC), first_n(n)]));
    }
    if thorough {
        v.push(cfg(f, vec![first_n(300), last_n(300)]));
    }
    fams.push(Family { name: "range-sizes", rule: if thorough { "one player with the first N and the last N combos (card order) for every N in 1..=1326; (N,2) and (2,N) for N in 255..=257; (300,300)" } else { "one player with the first N combos for N around every multiple of 256 and at 1325/1326; (N,2) and (2,N) for N in 255..=257" }, configs: v, exact_prob: true, exhaustive: thorough });
    // many players
    let mut v = vec![];
    for f in if thorough { &FLOPS8[..] } else { &FLOPS8[3..5] } {
        let d = deck_without(f);
        for n in 4..=10usize {
            // player i holds {D[2i] D[2i+1]} and the shared combo {D[30] D[31]}; the last player also a combo on the flop
            let mut ranges = vec![];
            for i in 0..n {
                let mut r = vec![(Combo::new(d[2 * i], d[2 * i + 1]), DYADIC[i % 3])];
                if n <= 6 || i % 3 == 0 {
                    r.push((Combo::new(d[30], d[31]), 0.5));
                }
                if i == n - 1 {
                    r.push((Combo::new(f[1], d[40]), 1.0));
                }
                if i == 0 {
                    r.push((Combo::new(d[3], d[48]), 0.25));
                }
                ranges.push(r);
            }
            v.push(cfg(*f, ranges));
        }
    }
    fams.push(Family { name: "many-players", rule: "4..=10 players, each with an own combo; a combo shared by all (n<=6) or every third player; one combo colliding with the neighbour and one on the flop", configs: v, exact_prob: true, exhaustive: false });
    // zero players
    fams.push(Family { name: "zero-players", rule: "no players: one (empty) showdown per position", configs: FLOPS8[..2].iter().map(|f| cfg(*f, vec![])).collect(), exact_prob: true, exhaustive: true });
    if thorough {
        // all flops
        let mut v = vec![];
        for f in all_flops() {
            let a = alphabet(&f);
            for i in 0..8 {
                v.push(cfg(f, vec![subset_range(&a, 1 << i, 0, &DYADIC)]));
            }
            v.push(cfg(f, vec![subset_range(&a, 0xff, 0, &DYADIC)]));
            v.push(cfg(f, vec![subset_range(&a, 0xff, 0, &DYADIC), subset_range(&a, 0x3f, 1, &DYADIC)]));
        }
        fams.push(Family { name: "all-flops", rule: "all 22,100 flops (sorted card order): one player with each single alphabet combo and with the full alphabet; two players full alphabet vs first six", configs: v, exact_prob: true, exhaustive: true });
        // flop orders
        let mut v = vec![];
        for f in [[0u8, 6, 51], [8, 26, 49]] {
            for p in [[0usize, 1, 2], [0, 2, 1], [1, 0, 2], [1, 2, 0], [2, 0, 1], [2, 1, 0]] {
                let g = [f[p[0]], f[p[1]], f[p[2]]];
                let a = alphabet(&g);
                v.push(cfg(g, vec![subset_range(&a, 0xff, 0, &DYADIC), subset_range(&a, 0x1f, 1, &DYADIC)]));
            }
        }
        fams.push(Family { name: "flop-orders", rule: "all 6 orders of two flops, two players", configs: v, exact_prob: true, exhaustive: true });
        // non-dyadic weights
        let mut v = vec![];
        for f in &FLOPS8[2..4] {
            let a = alphabet(f);
            for &m0 in &small_masks(8, 2) {
                for &m1 in &small_masks(8, 2) {
                    v.push(cfg(*f, vec![subset_range(&a, m0, 0, &NONDYADIC), subset_range(&a, m1, 1, &NONDYADIC)]));
                }
            }
        }
        fams.push(Family { name: "nondyadic-weights", rule: "weights 0.3/0.7/0.9, product compared within n*1e-6 relative", configs: v, exact_prob: false, exhaustive: true });
    }
    fams
}

pub fn check_config(c: &Config, exact_prob: bool) -> (Option<Value>, u64, u64) {
    let model = model_run(c);
    let expected: u64 = model.iter().map(|b| b.len() as u64).sum();
    let cap = 1176 * c.pi().max(1) + 16;
    match run_impl(c, None, 2, cap) {
        Err(e) => (Some(json!({"panic": e, "at": vlib::report::last_panic_loc()})), 0, expected),
        Ok(run) => {
            let calls = run.next_calls;
            if !run.stays_exhausted {
                return (Some(json!({"problem": "next() returned Some after None"})), calls, expected);
            }
            (compare(c, &model, &run, 0, 1176, false, exact_prob), calls, expected)
        }
    }
}

pub fn run(tier: &str) -> i32 {
    let mut rep = Report::new("C02", tier);
    let thorough = tier == "thorough";
    for fam in families(thorough) {
        let n = fam.configs.len();
        let outs = par_map(n, |i| check_config(&fam.configs[i], fam.exact_prob));
        let mut states = 0u64;
        let mut transitions = 0u64;
        let mut deals = 0u64;
        let mut nontrivial = 0u64;
        for (i, (bad, calls, expected)) in outs.into_iter().enumerate() {
            let c = &fam.configs[i];
            states += 1176 * c.pi();
            transitions += calls;
            deals += expected;
            // non-trivial: at least one deal is legal and at least one odometer state is blocked
            if expected > 0 && expected < 1176 * c.pi() {
                nontrivial += 1;
            }
            if let Some(b) = bad {
                rep.violation(Violation {
                    key: c.key(),
                    sub: fam.name.into(),
                    case: json!({"config": c.to_json(), "exact_prob": fam.exact_prob}),
                    expected: json!({"legal_deals": expected}),
                    observed: b,
                });
            }
        }
        rep.machine(states, transitions, n as u64);
        rep.sub(fam.name, fam.rule, n as u64, nontrivial, fam.exhaustive, json!({"configurations": n, "odometer_states": states, "next_calls": transitions, "legal_deals_in_model": deals}));
        if let Some(c) = fam.configs.get(n / 2) {
            rep.sample(json!({"family": fam.name, "flop": cards_text(&c.flop), "ranges": c.label}));
        }
    }
    rep.set("explanation".into(), json!("states = odometer states (1176 positions x product of range sizes) the real iterator walks through; transitions = next() calls made; each configuration's complete yield is compared as a multiset per position with the reference enumerator"));
    rep.bound("ranges are subsets of an 8-combo alphabet built to collide, plus prefixes/suffixes of the 1326 combos; not all 2^1326 ranges");
    rep.bound(if thorough { "flops: 8 structured flops for the subset families, all 22,100 for the single-combo/full-alphabet family" } else { "flops: 8 structured flops (all 22,100 in thorough)" });
    rep.assume("M-deals (vlib/src/deals.rs) is a direct transcription of the property: nested choice of one combo per player, kept iff the 5+2n cards are distinct");
    rep.finish()
}

pub fn replay(case: &Value) -> Value {
    let c = Config::from_json(&case["config"]);
    let exact = case["exact_prob"].as_bool().unwrap_or(true);
    let (bad, calls, expected) = check_config(&c, exact);
    json!({"config": c.key(), "legal_deals_in_model": expected, "next_calls": calls, "discrepancy": bad})
}
