//! C02: the enumeration yields every legal deal exactly once and nothing else.
//! Explicit-state exploration: every next() transition of the real iterator, for every
//! configuration of a colliding alphabet, compared as a multiset with M-deals.

use serde_json::{json, Value};
use vlib::cards::*;
use vlib::deals::*;
use vlib::par::par_map;
use vlib::report::{Report, Violation};

pub const FLOPS8: [[u8; 3]; 8] = [
    [0, 1, 2],    // As Ah Ad : deck starts at Ac
    [49, 50, 51], // 2h 2d 2c : deck ends at 2s
    [0, 6, 51],   // As Kd 2c : both deck ends are flop cards
    [8, 26, 49],  // Qs 8d 2h : README flop
    [51, 0, 6],   // 2c As Kd : same cards, given out of deck order
    [29, 30, 31], // 7h 7d 7c
    [20, 21, 18], // 9s 9h Td, unsorted
    [7, 4, 37],   // Kc Ks 5h, unsorted
];

/// the colliding combo alphabet relative to a flop
pub fn alphabet(flop: &[u8; 3]) -> Vec<Combo> {
    let d = deck_without(flop);
    let (x0, x1, y, z0, z1) = (d[0], d[1], d[24], d[47], d[48]);
    vec![
        Combo::new(x0, x1),
        Combo::new(x0, y),
        Combo::new(x1, y),
        Combo::new(y, z1),
        Combo::new(z0, z1),
        Combo::new(flop[0], x0),
        Combo::new(flop[0], flop[1]),
        Combo::new(flop[2], z1),
    ]
}

/// alphabet for three players: three pairwise-disjoint combos exist (x0x1, z0z1, w0w1), the others collide
pub fn alphabet3(flop: &[u8; 3]) -> Vec<Combo> {
    let d = deck_without(flop);
    let (x0, x1, y, z0, z1, w0, w1) = (d[0], d[1], d[24], d[47], d[48], d[10], d[11]);
    vec![
        Combo::new(x0, x1),
        Combo::new(x0, y),
        Combo::new(y, z1),
        Combo::new(z0, z1),
        Combo::new(w0, w1),
        Combo::new(flop[0], w0),
    ]
}

const DYADIC: [f32; 3] = [1.0, 0.5, 0.25];
const NONDYADIC: [f32; 3] = [0.3, 0.7, 0.9];

fn subset_range(alpha: &[Combo], mask: u32, player: usize, weights: &[f32; 3]) -> Vec<(Combo, f32)> {
    let mut v = vec![];
    for (i, c) in alpha.iter().enumerate() {
        if mask >> i & 1 == 1 {
            v.push((*c, weights[(player + i) % 3]));
        }
    }
    v
}

fn cfg(flop: [u8; 3], ranges: Vec<Vec<(Combo, f32)>>) -> Config {
    let label = Config::describe_ranges(&ranges);
    Config { flop, ranges, label }
}

fn first_n(n: usize) -> Vec<(Combo, f32)> {
    // mixed weights (pocket pairs 0.5, suited 0.25, offsuit 1) so that a weight taken from the wrong entry shows
    all_combos().into_iter().take(n).map(|c| (c, if c.0 >> 2 == c.1 >> 2 { 0.5 } else if c.0 & 3 == c.1 & 3 { 0.25 } else { 1.0 })).collect()
}
fn last_n(n: usize) -> Vec<(Combo, f32)> {
    let a = all_combos();
    a[a.len() - n..].iter().map(|c| (*c, DYADIC[c.id() % 3])).collect()
}

struct Family {
    name: &'static str,
    rule: &'static str,
    configs: Vec<Config>,
    exact_prob: bool,
    exhaustive: bool,
}

fn small_masks(bits: u32, max_size: u32) -> Vec<u32> {
    (1u32..(1 << bits)).filter(|m| m.count_ones() <= max_size).collect()
}

fn families(thorough: bool) -> Vec<Family> {
    let mut fams = vec![];
    // n = 1: all non-empty subsets
    let mut v = vec![];
    for f in FLOPS8 {
        let a = alphabet(&f);
        for m in 1u32..256 {
            v.push(cfg(f, vec![subset_range(&a, m, 0, &DYADIC)]));
        }
    }
    fams.push(Family { name: "n1-all-subsets", rule: "one player, every non-empty subset of the 8-combo colliding alphabet (first/last deck cards, shared cards, one and two flop cards), 8 flops, dyadic weights", configs: v, exact_prob: true, exhaustive: true });
    // n = 2
    let mut v = vec![];
    let masks: Vec<u32> = if thorough { (1u32..256).collect() } else { small_masks(8, 2) };
    for f in FLOPS8 {
        let a = alphabet(&f);
        for &m0 in &masks {
            for &m1 in &masks {
                v.push(cfg(f, vec![subset_range(&a, m0, 0, &DYADIC), subset_range(&a, m1, 1, &DYADIC)]));
            }
        }
    }
    fams.push(Family { name: "n2-subset-pairs", rule: if thorough { "two players, all 255x255 ordered pairs of non-empty subsets of the alphabet, 8 flops" } else { "two players, all ordered pairs of subsets of size <= 2 (36x36), 8 flops" }, configs: v, exact_prob: true, exhaustive: true });
    // n = 3
    let mut v = vec![];
    let masks = small_masks(6, 2);
    let flops: &[[u8; 3]] = if thorough { &FLOPS8 } else { &FLOPS8[2..5] };
    for f in flops {
        let a = alphabet3(f);
        for &m0 in &masks {
            for &m1 in &masks {
                for &m2 in &masks {
                    v.push(cfg(*f, vec![subset_range(&a, m0, 0, &DYADIC), subset_range(&a, m1, 1, &DYADIC), subset_range(&a, m2, 2, &DYADIC)]));
                }
            }
        }
    }
    fams.push(Family { name: "n3-subset-triples", rule: "three players, all ordered triples of subsets of size <= 2 (21^3) over a six-combo alphabet with three pairwise-disjoint combos, three colliding ones and one on the flop", configs: v, exact_prob: true, exhaustive: true });
    // range sizes
    let mut v = vec![];
    let f = FLOPS8[3];
    let sizes: Vec<usize> = if thorough {
        (1..=1326).collect()
    } else {
        let mut v: Vec<usize> = (1..=66).collect();
        v.extend([95, 96, 97, 127, 128, 129, 191, 192, 193, 254, 255, 256, 257, 258, 319, 320, 321, 511, 512, 513, 767, 768, 1023, 1024, 1025, 1279, 1280, 1281, 1325, 1326]);
        v
    };
    for &n in &sizes {
        v.push(cfg(f, vec![first_n(n)]));
        if thorough {
            v.push(cfg(f, vec![last_n(n)]));
        }
    }
    for n in [31usize, 32, 33, 63, 64, 65, 128, 255, 256, 257] {
        let a = alphabet(&f);
        v.push(cfg(f, vec![first_n(n), subset_range(&a, 0b11, 1, &DYADIC)]));
        v.push(cfg(f, vec![subset_range(&a, 0b11, 0, &DYADIC), first_n(n)]));
    }
    if thorough {
        v.push(cfg(f, vec![first_n(300), last_n(300)]));
    }
    fams.push(Family { name: "range-sizes", rule: if thorough { "one player with the first N and the last N combos (card order) for every N in 1..=1326; (N,2) and (2,N) for N in 31..=33, 63..=65, 128, 255..=257; (300,300)" } else { "one player with the first N combos for every N in 1..=66, around every multiple of 64 up to 320, around every multiple of 256 and at 1279..1281/1325/1326; (N,2) and (2,N) for N in 31..=33, 63..=65, 128, 255..=257" }, configs: v, exact_prob: true, exhaustive: thorough });
    // many players
    let mut v = vec![];
    for f in if thorough { &FLOPS8[..] } else { &FLOPS8[3..5] } {
        let d = deck_without(f);
        for n in 4..=10usize {
            // player i holds {D[2i] D[2i+1]} and the shared combo {D[30] D[31]}; the last player also a combo on the flop
            let mut ranges = vec![];
            for i in 0..n {
                let mut r = vec![(Combo::new(d[2 * i], d[2 * i + 1]), DYADIC[i % 3])];
                if n <= 6 || i % 3 == 0 {
                    r.push((Combo::new(d[30], d[31]), 0.5));
                }
                if i == n - 1 {
                    r.push((Combo::new(f[1], d[40]), 1.0));
                }
                if i == 0 {
                    r.push((Combo::new(d[3], d[48]), 0.25));
                }
                ranges.push(r);
            }
            v.push(cfg(*f, ranges));
        }
    }
    // every table size the deck can seat at all: 11..=24 one-combo players on pairwise disjoint cards (23 players leave
    // three unseen cards and three legal boards; 24 leave one card and none)
    for f in [FLOPS8[3]] {
        let d = deck_without(&f);
        for n in 11..=24usize {
            let ranges: Vec<Vec<(Combo, f32)>> = (0..n).map(|i| vec![(Combo::new(d[2 * i], d[2 * i + 1]), DYADIC[i % 3])]).collect();
            v.push(cfg(f, ranges));
        }
    }
    fams.push(Family { name: "many-players", rule: "4..=10 players, each with an own combo; a combo shared by all (n<=6) or every third player; one combo colliding with the neighbour and one on the flop; and 11..=24 one-combo players on disjoint cards (every table size the deck can seat)", configs: v, exact_prob: true, exhaustive: false });
    // weights at the edges of f32: exactly 0, products that are subnormal or underflow
    let mut v = vec![];
    for wset in [[0.0f32, 1e-20, 1.0], [f32::MIN_POSITIVE, 1e-30, 0.5], [0.0, 0.0, 1.0]] {
        for f in &FLOPS8[2..4] {
            let a = alphabet(f);
            for &m0 in &small_masks(8, 2) {
                for &m1 in &small_masks(8, 2) {
                    v.push(cfg(*f, vec![subset_range(&a, m0, 0, &wset), subset_range(&a, m1, 1, &wset)]));
                }
            }
        }
    }
    fams.push(Family { name: "extreme-weights", rule: "two players, subset pairs of size <= 2, weights from {0, 1e-20, 1}, {f32::MIN_POSITIVE, 1e-30, 0.5}, {0, 0, 1}: a deal is yielded whatever its probability (zero, subnormal or underflowing products included)", configs: v, exact_prob: false, exhaustive: true });
    // every deck index: one player holding D[i] D[j] for every i < j; two players holding neighbours
    let mut v = vec![];
    {
        let f = FLOPS8[3];
        let d = deck_without(&f);
        for i in 0..49usize {
            for j in (i + 1)..49usize {
                if thorough || (i + j) % 4 == 0 || j >= 45 || i <= 1 {
                    v.push(cfg(f, vec![vec![(Combo::new(d[i], d[j]), 1.0)]]));
                }
            }
        }
        for i in 0..48usize {
            for j in 0..48usize {
                if thorough || (i + j) % 3 == 0 || i >= 44 || j >= 44 {
                    v.push(cfg(f, vec![vec![(Combo::new(d[i], d[i + 1]), 0.5)], vec![(Combo::new(d[j], d[j + 1]), 1.0)]]));
                }
            }
        }
    }
    fams.push(Family { name: "deck-sweep", rule: "one player holding D[i] D[j] for every pair of deck indexes (every fourth plus both deck ends in quick), two players holding D[i]D[i+1] and D[j]D[j+1] for all i, j (every third plus the deck end in quick): every deck index meets every position", configs: v, exact_prob: true, exhaustive: thorough });
    // zero players
    fams.push(Family { name: "zero-players", rule: "no players: one (empty) showdown per position", configs: FLOPS8[..2].iter().map(|f| cfg(*f, vec![])).collect(), exact_prob: true, exhaustive: true });
    if thorough {
        // all flops
        let mut v = vec![];
        for f in all_flops() {
            let a = alphabet(&f);
            for i in 0..8 {
                v.push(cfg(f, vec![subset_range(&a, 1 << i, 0, &DYADIC)]));
            }
            v.push(cfg(f, vec![subset_range(&a, 0xff, 0, &DYADIC)]));
            v.push(cfg(f, vec![subset_range(&a, 0xff, 0, &DYADIC), subset_range(&a, 0x3f, 1, &DYADIC)]));
        }
        fams.push(Family { name: "all-flops", rule: "all 22,100 flops (sorted card order): one player with each single alphabet combo and with the full alphabet; two players full alphabet vs first six", configs: v, exact_prob: true, exhaustive: true });
        // flop orders
        let mut v = vec![];
        for f in [[0u8, 6, 51], [8, 26, 49]] {
            for p in [[0usize, 1, 2], [0, 2, 1], [1, 0, 2], [1, 2, 0], [2, 0, 1], [2, 1, 0]] {
                let g = [f[p[0]], f[p[1]], f[p[2]]];
                let a = alphabet(&g);
                v.push(cfg(g, vec![subset_range(&a, 0xff, 0, &DYADIC), subset_range(&a, 0x1f, 1, &DYADIC)]));
            }
        }
        fams.push(Family { name: "flop-orders", rule: "all 6 orders of two flops, two players", configs: v, exact_prob: true, exhaustive: true });
        // non-dyadic weights
        let mut v = vec![];
        for f in &FLOPS8[2..4] {
            let a = alphabet(f);
            for &m0 in &small_masks(8, 2) {
                for &m1 in &small_masks(8, 2) {
                    v.push(cfg(*f, vec![subset_range(&a, m0, 0, &NONDYADIC), subset_range(&a, m1, 1, &NONDYADIC)]));
                }
            }
        }
        fams.push(Family { name: "nondyadic-weights", rule: "weights 0.3/0.7/0.9, product compared within n*1e-6 relative", configs: v, exact_prob: false, exhaustive: true });
    }
    fams
}

pub fn check_config(c: &Config, exact_prob: bool) -> (Option<Value>, u64, u64) {
    let _h = vlib::report::horizon("C02", "termination", c.key(), json!({"config": c.to_json(), "exact_prob": exact_prob}), 1176 * c.pi().max(1));
    let model = model_run(c);
    let expected: u64 = model.iter().map(|b| b.len() as u64).sum();
    let cap = 1176 * c.pi().max(1) + 16;
    match run_impl(c, None, 2, cap) {
        Err(e) => (Some(json!({"panic": e, "at": vlib::report::last_panic_loc()})), 0, expected),
        Ok(run) => {
            let calls = run.next_calls;
            if !run.stays_exhausted {
                return (Some(json!({"problem": "next() returned Some after None"})), calls, expected);
            }
            (compare(c, &model, &run, 0, 1176, false, exact_prob), calls, expected)
        }
    }
}

pub fn run(tier: &str) -> i32 {
    let mut rep = Report::new("C02", tier);
    let thorough = tier == "thorough";
    for fam in families(thorough) {
        let n = fam.configs.len();
        let outs = par_map(n, |i| check_config(&fam.configs[i], fam.exact_prob));
        let mut states = 0u64;
        let mut transitions = 0u64;
        let mut deals = 0u64;
        let mut nontrivial = 0u64;
        for (i, (bad, calls, expected)) in outs.into_iter().enumerate() {
            let c = &fam.configs[i];
            states += 1176 * c.pi();
            transitions += calls;
            deals += expected;
            // non-trivial: at least one deal is legal and at least one odometer state is blocked
            if expected > 0 && expected < 1176 * c.pi() {
                nontrivial += 1;
            }
            if let Some(b) = bad {
                rep.violation(Violation {
                    key: c.key(),
                    sub: fam.name.into(),
                    case: json!({"config": c.to_json(), "exact_prob": fam.exact_prob}),
                    expected: json!({"legal_deals": expected}),
                    observed: b,
                });
            }
        }
        rep.machine(states, transitions, n as u64);
        rep.sub(fam.name, fam.rule, n as u64, nontrivial, fam.exhaustive, json!({"configurations": n, "odometer_states": states, "next_calls": transitions, "legal_deals_in_model": deals}));
        if let Some(c) = fam.configs.get(n / 2) {
            rep.sample(json!({"family": fam.name, "flop": cards_text(&c.flop), "ranges": c.label}));
        }
    }
    huge_tables(&mut rep, thorough);
    adapters(&mut rep);
    construction_routes(&mut rep);
    stamp_wrap(&mut rep, thorough);
    rep.set("explanation".into(), json!("states = odometer states (1176 positions x product of range sizes) the real iterator walks through; transitions = next() calls made; each configuration's complete yield is compared as a multiset per position with the reference enumerator"));
    rep.bound("ranges are subsets of an 8-combo alphabet built to collide, plus prefixes/suffixes of the 1326 combos; not all 2^1326 ranges");
    rep.bound(if thorough { "flops: 8 structured flops for the subset families, all 22,100 for the single-combo/full-alphabet family" } else { "flops: 8 structured flops (all 22,100 in thorough)" });
    rep.assume("M-deals (vlib/src/deals.rs) is a direct transcription of the property: nested choice of one combo per player, kept iff the 5+2n cards are distinct");
    rep.finish()
}

/// tables whose product of range sizes exceeds 2^64: only a prefix of the enumeration can be taken,
/// every yielded showdown must be a legal deal, no deal twice, and the prefix must be as long as asked
fn huge_tables(rep: &mut Report, thorough: bool) {
    use espada::evaluator::FlopExhaustiveEvaluator;
    use espada::hand_range::HandRange;
    use vlib::report::catch;
    let flop = FLOPS8[3];
    let deck = deck_without(&flop);
    let all = all_combos();
    let k_take: usize = if thorough { 20_000 } else { 3_000 };
    let tables: Vec<(usize, usize)> = if thorough { vec![(8, 256), (7, 600), (10, 300), (9, 255), (8, 257), (10, 1000), (16, 16)] } else { vec![(8, 256), (7, 600), (10, 300)] };
    let mut n_tables = 0u64;
    let mut yielded_total = 0u64;
    for (n, size) in tables {
        // ranges: `size` consecutive combos (in card order, not touching the flop or the first two deck cards),
        // shifted per player until the combo the evaluator will try first is disjoint from the earlier players' first combos
        let usable: Vec<Combo> = all.iter().cloned().filter(|c| !flop.contains(&c.0) && !flop.contains(&c.1) && c.0 != deck[0] && c.1 != deck[0] && c.0 != deck[1] && c.1 != deck[1]).collect();
        let mut ranges: Vec<HandRange> = vec![];
        let mut firsts: Vec<Combo> = vec![];
        let mut offset = 0usize;
        let mut ok = true;
        for _p in 0..n {
            let mut tries = 0;
            loop {
                let r: HandRange = (0..size).map(|i| (usable[(offset + i) % usable.len()].card_pair(), 1.0f32)).collect();
                let first = r.card_pairs().iter().next().map(|(cp, _)| Combo::of(cp)).unwrap();
                let clash = firsts.iter().any(|f| f.0 == first.0 || f.0 == first.1 || f.1 == first.0 || f.1 == first.1);
                offset += 37;
                tries += 1;
                if !clash {
                    firsts.push(first);
                    ranges.push(r);
                    break;
                }
                if tries > 400 {
                    ok = false;
                    break;
                }
            }
        }
        if !ok {
            continue;
        }
        n_tables += 1;
        let _h = vlib::report::horizon("C02", "huge-tables", format!("{} players x {} combos: the first {} showdowns", n, size, k_take), json!({"players": n, "size": size}), k_take as u64 * 10_000);
        let rs = ranges.clone();
        // bounded work: the take() below can only be slow if a long blocked run precedes the first deal, which the
        // construction above excludes for all players but the last two
        let r = catch(move || {
            let ev = FlopExhaustiveEvaluator::new(&board_opt(&flop), &rs);
            let mut out: Vec<Vec<Combo>> = vec![];
            let mut bad: Option<String> = None;
            for sd in ev.into_iter().take(k_take) {
                let mut seen = 0u64;
                for c in sd.board().iter() {
                    seen |= 1u64 << idx_of(c);
                }
                let mut combos = vec![];
                for (i, p) in sd.players().iter().enumerate() {
                    let cb = Combo::of(&p.hole_cards());
                    if seen & (1u64 << cb.0) != 0 || seen & (1u64 << cb.1) != 0 {
                        bad = Some("a card appears twice in a showdown".into());
                    }
                    seen |= (1u64 << cb.0) | (1u64 << cb.1);
                    if !rs[i].card_pairs().contains_key(&p.hole_cards()) {
                        bad = Some(format!("player {} holds {} which is not in the range", i, cb.text()));
                    }
                    combos.push(cb);
                }
                if sd.probability() != 1.0 {
                    bad = Some("probability is not the product of the weights".into());
                }
                out.push(combos);
            }
            (out, bad)
        });
        let label = format!("{} players x {} combos", n, size);
        let obs = match r {
            Err(e) => Some(json!({"panic": e})),
            Ok((out, bad)) => {
                yielded_total += out.len() as u64;
                let mut sorted = out.clone();
                sorted.sort();
                sorted.dedup();
                if let Some(b) = bad {
                    Some(json!({"problem": b}))
                } else if sorted.len() != out.len() {
                    Some(json!({"problem": "the same deal was yielded twice"}))
                } else if out.len() < k_take && ok {
                    Some(json!({"problem": format!("the enumeration ended after {} showdowns although far more legal deals exist", out.len())}))
                } else {
                    None
                }
            }
        };
        if let Some(o) = obs {
            rep.violation(Violation { key: format!("flop={} table={}", cards_text(&flop), label), sub: "huge-tables".into(), case: json!({"players": n, "size": size}), expected: json!(format!("the first {} showdowns are legal, distinct deals", k_take)), observed: o });
        }
        rep.sample(json!({"family": "huge-tables", "table": label, "take": k_take}));
    }
    rep.machine(yielded_total.max(1), yielded_total.max(1), n_tables);
    rep.sub("huge-tables", "tables whose product of range sizes exceeds 2^64 (8x256 = 2^64 exactly, 7x600, 10x300, ...): the first K showdowns are taken; each must be a legal deal of the players' own ranges, none twice, and K must be reached. Ranges are shifted so that the combos the evaluator tries first do not collide (keeps the prefix cheap). distinct_nontrivial = showdowns inspected", n_tables, yielded_total, false, json!({"take": k_take}));
}

/// "iterating the evaluator" is more than a for loop: the other consuming methods of Iterator must see the
/// same sequence as repeated next() calls
fn adapters(rep: &mut Report) {
    use vlib::report::catch;
    let mut cfgs: Vec<Config> = vec![];
    for f in [FLOPS8[0], FLOPS8[2], FLOPS8[3]] {
        let a = alphabet(&f);
        for m in [0b1u32, 0b100000, 0b1000000, 0b11100001, 0b01100110, 0xff] {
            cfgs.push(cfg(f, vec![subset_range(&a, m, 0, &DYADIC)]));
            cfgs.push(cfg(f, vec![subset_range(&a, m, 0, &DYADIC), subset_range(&a, 0b10011, 1, &DYADIC)]));
        }
    }
    // an empty range beside others: every consuming method sees an empty enumeration
    for f in [FLOPS8[3]] {
        let a = alphabet(&f);
        cfgs.push(cfg(f, vec![vec![]]));
        cfgs.push(cfg(f, vec![subset_range(&a, 0b11, 0, &DYADIC), vec![]]));
        cfgs.push(cfg(f, vec![vec![], subset_range(&a, 0b11, 1, &DYADIC)]));
    }
    let outs = par_map(cfgs.len(), |i| {
        let c = cfgs[i].clone();
        let deck = deck_without(&c.flop);
        let _h = vlib::report::horizon("C02", "iterator-adapters", format!("{} adapters", c.key()), json!({"config": c.to_json(), "exact_prob": true}), 1176 * c.pi().max(1) * 20);
        catch(move || {
            let sig = |sd: &espada::evaluator::Showdown| -> (Option<usize>, u128, u32) {
                let r = reduce(sd, &c.flop, &deck);
                (r.pos_unordered(), r.combo_key(), r.prob.to_bits())
            };
            let base: Vec<(Option<usize>, u128, u32)> = c.evaluator().into_iter().map(|sd| sig(&sd)).collect();
            let n = base.len();
            let mut problems: Vec<String> = vec![];
            let cnt = c.evaluator().into_iter().count();
            if cnt != n {
                problems.push(format!("count() = {} but next() yields {} showdowns", cnt, n));
            }
            let last = c.evaluator().into_iter().last().map(|sd| sig(&sd));
            if last != base.last().cloned() {
                problems.push("last() is not the last showdown next() yields".into());
            }
            for k in [0usize, 1, 2, n / 2, n.saturating_sub(1), n, n + 3] {
                let mut it = c.evaluator().into_iter();
                let got = it.nth(k).map(|sd| sig(&sd));
                if got != base.get(k).cloned() {
                    problems.push(format!("nth({}) differs from the showdown at that place", k));
                }
                let rest = it.count();
                if rest != n.saturating_sub(k + 1) {
                    problems.push(format!("after nth({}) count() = {}, expected {}", k, rest, n.saturating_sub(k + 1)));
                }
            }
            let folded = c.evaluator().into_iter().fold(0usize, |a, _| a + 1);
            if folded != n {
                problems.push(format!("fold visits {} showdowns, next() yields {}", folded, n));
            }
            let mut it = c.evaluator().into_iter();
            let mut seen = 0usize;
            loop {
                let (lo, hi) = it.size_hint();
                let remaining = n - seen;
                if lo > remaining || hi.map(|h| h < remaining).unwrap_or(false) {
                    problems.push(format!("size_hint() = ({}, {:?}) with {} showdowns still to come", lo, hi, remaining));
                    break;
                }
                if it.next().is_none() {
                    break;
                }
                seen += 1;
            }
            let skipped: Vec<_> = c.evaluator().into_iter().skip(n / 3).step_by(2).map(|sd| sig(&sd)).collect();
            let expect: Vec<_> = base.iter().skip(n / 3).step_by(2).cloned().collect();
            if skipped != expect {
                problems.push("skip().step_by() sees a different sequence".into());
            }
            // an iterator used in pieces: by_ref().take(k) then the rest; peekable(); fuse(); chain(); zip(); a None in
            // the middle does not revive it
            for k in [0usize, 1, 2, n / 2, n.saturating_sub(1), n, n + 2] {
                let mut it = c.evaluator().into_iter();
                let head: Vec<_> = it.by_ref().take(k).map(|sd| sig(&sd)).collect();
                let tail: Vec<_> = it.by_ref().map(|sd| sig(&sd)).collect();
                if head[..] != base[..k.min(n)] || tail[..] != base[k.min(n)..] {
                    problems.push(format!("by_ref().take({}) then the rest: {} + {} showdowns, not the sequence split at {}", k, head.len(), tail.len(), k));
                }
                if it.next().is_some() || it.by_ref().count() != 0 {
                    problems.push(format!("after by_ref().take({}) and draining, the iterator yields again", k));
                }
            }
            {
                let mut pk = c.evaluator().into_iter().peekable();
                let mut got = vec![];
                loop {
                    let peeked = pk.peek().map(|sd| sig(sd));
                    let peeked_again = pk.peek().map(|sd| sig(sd));
                    let nx = pk.next().map(|sd| sig(&sd));
                    if peeked != nx || peeked != peeked_again {
                        problems.push("peekable(): peek() and next() disagree".into());
                        break;
                    }
                    match nx {
                        Some(x) => got.push(x),
                        None => break,
                    }
                }
                if got != base {
                    problems.push("peekable() sees a different sequence".into());
                }
                let fused: Vec<_> = c.evaluator().into_iter().fuse().map(|sd| sig(&sd)).collect();
                if fused != base {
                    problems.push("fuse() sees a different sequence".into());
                }
                let chained: Vec<_> = c.evaluator().into_iter().chain(c.evaluator().into_iter()).map(|sd| sig(&sd)).collect();
                if chained.len() != 2 * n || chained[..n] != base[..] || chained[n..] != base[..] {
                    problems.push("chain() of two evaluators of the same configuration is not the sequence twice".into());
                }
                let zipped = c.evaluator().into_iter().zip(c.evaluator().into_iter()).filter(|(a, b)| sig(a) == sig(b)).count();
                if zipped != n {
                    problems.push(format!("zip() of two evaluators of the same configuration: {} equal pairs of {}", zipped, n));
                }
                let maxed = c.evaluator().into_iter().map(|sd| sig(&sd)).max();
                if maxed != base.iter().cloned().max() {
                    problems.push("max() over the iterator differs".into());
                }
            }
            (n, problems)
        })
    });
    let mut n_cfg = 0u64;
    let mut sds = 0u64;
    for (i, o) in outs.into_iter().enumerate() {
        n_cfg += 1;
        let c = &cfgs[i];
        match o {
            Ok((n, problems)) => {
                sds += n as u64;
                if let Some(p) = problems.first() {
                    rep.violation(Violation { key: format!("{} adapters", c.key()), sub: "iterator-adapters".into(), case: json!({"config": c.to_json()}), expected: json!("count / last / nth / fold / size_hint / skip+step_by agree with repeated next()"), observed: json!(problems.iter().take(3).collect::<Vec<_>>()) });
                    let _ = p;
                }
            }
            Err(e) => rep.violation(Violation { key: format!("{} adapters", c.key()), sub: "iterator-adapters".into(), case: json!({"config": c.to_json()}), expected: json!("runs"), observed: json!({"panic": e}) }),
        }
    }
    rep.machine(sds.max(1), sds.max(1), n_cfg);
    rep.sub("iterator-adapters", "39 configurations (ranges with and without flop cards, three with an empty range): count(), last(), nth(k) for k around both ends (and count() of the rest), fold, size_hint before every next(), skip().step_by(), by_ref().take(k) then the rest, peekable(), fuse(), chain() and zip() of two evaluators must agree with the sequence repeated next() yields (which the other families compare with M-deals)", n_cfg * 12, n_cfg, false, json!({"showdowns_in_base_runs": sds}));
}

pub fn replay(case: &Value) -> Value {
    if case.get("players").is_some() {
        return json!({"note": "huge-table cases are re-run by ./check C02 quick (sub-check huge-tables)", "case": case});
    }
    let c = Config::from_json(&case["config"]);
    if let Some(w) = case.get("window") {
        let (from, to) = (w[0].as_u64().unwrap() as usize, w[1].as_u64().unwrap() as usize);
        let (bad, calls, expected) = vlib::deals::check_window(&c, from, to, true);
        return json!({"config": c.key(), "window": [from, to], "legal_deals_in_model": expected, "next_calls": calls, "discrepancy": bad});
    }
    if case.get("routes").is_some() {
        let (problems, n) = check_routes(&c);
        return json!({"config": c.key(), "routes_tried": n, "routes_that_differ": problems.into_iter().map(|(a, b)| json!({"route": a, "observed": b})).collect::<Vec<_>>()});
    }
    let exact = case["exact_prob"].as_bool().unwrap_or(true);
    let (bad, calls, expected) = check_config(&c, exact);
    json!({"config": c.key(), "legal_deals_in_model": expected, "next_calls": calls, "discrepancy": bad})
}


fn check_routes(c: &Config) -> (Vec<(String, Value)>, u64) {
    use espada::evaluator::FlopExhaustiveEvaluator;
    use espada::hand_range::HandRange;
    use vlib::notation::weight_suffix;
    use vlib::report::catch;
    let c = c.clone();
    let _h = vlib::report::horizon("C02", "construction-routes", format!("{} construction routes", c.key()), json!({"config": c.to_json(), "exact_prob": true, "routes": true}), 1176 * c.pi().max(1) * 12);
    let (model_bad, _, _) = check_config(&c, true);
    if let Some(b) = model_bad {
        return (vec![("collect() of distinct items".to_string(), b)], 0u64);
    }
    let deck = deck_without(&c.flop);
    let r = catch(move || {
        let run = |ranges: &Vec<HandRange>| -> Vec<(Option<usize>, u128, u32)> {
            let mut v: Vec<(Option<usize>, u128, u32)> = FlopExhaustiveEvaluator::new(&board_opt(&c.flop), ranges)
                .into_iter()
                .map(|sd| {
                    let r = reduce(&sd, &c.flop, &deck);
                    (r.pos_unordered(), r.combo_key(), r.prob.to_bits())
                })
                .collect();
            v.sort();
            v
        };
        let plain = c.hand_ranges();
        let base = run(&plain);
        let mut routes: Vec<(String, Vec<HandRange>)> = vec![];
        // every combo first with another weight, then (twice) with its own
        routes.push(("collect() from an iterator that repeats every combo (another weight first, the final one twice)".into(), c.ranges.iter().map(|r| {
            let mut items: Vec<(espada::hand_range::CardPair, f32)> = vec![];
            for (cb, _) in r { items.push((cb.card_pair(), 0.125)); }
            for (cb, w) in r { items.push((cb.card_pair(), *w)); }
            for (cb, w) in r.iter().rev() { items.push((cb.card_pair(), *w)); }
            items.into_iter().collect::<HandRange>()
        }).collect()));
        routes.push(("collect() with the first combo repeated at the end".into(), c.ranges.iter().map(|r| {
            let mut items: Vec<(espada::hand_range::CardPair, f32)> = r.iter().map(|(cb, w)| (cb.card_pair(), *w)).collect();
            if let Some(f) = items.first().cloned() { items.push(f); }
            items.into_iter().collect::<HandRange>()
        }).collect()));
        routes.push(("collect() in reverse order".into(), c.ranges.iter().map(|r| r.iter().rev().map(|(cb, w)| (cb.card_pair(), *w)).collect::<HandRange>()).collect()));
        routes.push(("parse of the comma-joined combos (each written twice)".into(), c.ranges.iter().map(|r| {
            let t: Vec<String> = r.iter().chain(r.iter()).map(|(cb, w)| format!("{}{}", cb.text(), weight_suffix(w.to_bits()))).collect();
            t.join(",").parse::<HandRange>().unwrap()
        }).collect()));
        routes.push(("to_string() then parse".into(), plain.iter().map(|r| r.to_string().parse::<HandRange>().unwrap()).collect()));
        routes.push(("clone()".into(), plain.iter().map(|r| r.clone()).collect()));
        routes.push(("collect() of the (pair, weight) items of &range".into(), plain.iter().map(|r| r.into_iter().map(|(k, w)| (*k, *w)).collect::<HandRange>()).collect()));
        if c.ranges.iter().all(|r| r.iter().all(|(_, w)| *w == 1.0)) {
            routes.push(("FromIterator<CardPair> with every combo twice".into(), c.ranges.iter().map(|r| r.iter().chain(r.iter()).map(|(cb, _)| cb.card_pair()).collect::<HandRange>()).collect()));
        }
        let mut problems: Vec<(String, String)> = vec![];
        let n_routes = routes.len() as u64;
        for (name, ranges) in routes {
            if ranges.iter().zip(plain.iter()).any(|(a, b)| a != b) {
                // the route does not lead to equal contents: not this property's business (C06/C17 own that)
                problems.push((name.clone(), "the route leads to a range that is != the plain one".into()));
                continue;
            }
            let got = run(&ranges);
            if got != base {
                let extra = got.iter().filter(|x| base.binary_search(x).is_err()).count();
                let missing = base.iter().filter(|x| got.binary_search(x).is_err()).count();
                problems.push((name, format!("{} showdowns instead of {} ({} not in the plain run, {} of the plain run missing, the rest differ in multiplicity)", got.len(), base.len(), extra, missing)));
            }
        }
        (problems, n_routes)
    });
    match r {
        Err(e) => (vec![("a construction route".to_string(), json!({"panic": e}))], 0),
        Ok((problems, n)) => (problems.into_iter().map(|(a, b)| (a, json!(b))).collect(), n),
    }
}

/// The enumeration is a function of the ranges' CONTENTS (card_pairs()): the same contents reached by other public
/// construction routes - collect() from an iterator that repeats combos (the last weight wins, as in any map), collect()
/// in reverse, parsing the text, clone(), FromIterator<CardPair> for all-ones ranges, collect() of a parsed range's
/// own (pair, weight) items - must give the same multiset of (position, combos, probability) as the plain route, and
/// the plain route is compared with M-deals.
fn construction_routes(rep: &mut Report) {
    let mut cfgs: Vec<Config> = vec![];
    for f in [FLOPS8[2], FLOPS8[3]] {
        let a = alphabet(&f);
        for (m0, m1) in [(0b1u32, 0u32), (0b110, 0), (0xff, 0), (0b1011, 0b110100), (0xff, 0b10011), (0b11, 0xff)] {
            let mut rs = vec![subset_range(&a, m0, 0, &DYADIC)];
            if m1 != 0 {
                rs.push(subset_range(&a, m1, 1, &DYADIC));
            }
            cfgs.push(cfg(f, rs));
        }
        // all-ones ranges (the FromIterator<CardPair> route applies)
        cfgs.push(cfg(f, vec![subset_range(&a, 0b111, 0, &[1.0, 1.0, 1.0]), subset_range(&a, 0b11000, 1, &[1.0, 1.0, 1.0])]));
        // a wide range
        cfgs.push(cfg(f, vec![first_n(70), subset_range(&a, 0b101, 1, &DYADIC)]));
    }
    let n_cfg = cfgs.len();
    let outs = par_map(n_cfg, |i| check_routes(&cfgs[i]));
    let mut n_routes = 0u64;
    for (i, (problems, n)) in outs.into_iter().enumerate() {
        n_routes += n;
        for (route, what) in problems {
            rep.violation(Violation {
                key: format!("{} built by {}", cfgs[i].key(), route),
                sub: "construction-routes".into(),
                case: json!({"config": cfgs[i].to_json(), "exact_prob": true, "routes": true}),
                expected: json!("the same multiset of (position, combos, probability) as ranges with equal contents built by collect() of distinct items"),
                observed: what,
            });
        }
    }
    rep.sub("construction-routes", "16 configurations (1-2 players, subsets of the colliding alphabet, all-ones ranges, a 70-combo range) x up to 8 public routes to EQUAL range contents (collect() with repeated combos, reversed, parse with every combo written twice, to_string+parse, clone, re-collect of &range, FromIterator<CardPair> with repeats): each route's complete yield equals the plain route's as a multiset; the plain route is compared with M-deals", n_routes, n_routes, false, json!({"configurations": n_cfg}));
}


/// long enumerations inside one iterator: range sizes at which an 8- or 16-bit per-deal counter comes round
fn stamp_wrap(rep: &mut Report, thorough: bool) {
    let cfgs = vlib::deals::stamp_wrap_configs(FLOPS8[3], false);
    let (from, to) = (0usize, if thorough { 6usize } else { 3 });
    let outs = par_map(cfgs.len(), |i| vlib::deals::check_window(&cfgs[i], from, to, true));
    let mut states = 0u64;
    let mut calls = 0u64;
    let mut nontrivial = 0u64;
    for (i, (bad, c, expected)) in outs.into_iter().enumerate() {
        states += (to - from) as u64 * cfgs[i].pi();
        calls += c;
        if expected > 0 {
            nontrivial += 1;
        }
        if let Some(b) = bad {
            rep.violation(Violation { key: format!("{} scope=positions {}..{}", cfgs[i].key(), from, to), sub: "stamp-wrap".into(), case: json!({"config": cfgs[i].to_json(), "exact_prob": true, "window": [from, to]}), expected: json!({"legal_deals": expected}), observed: b });
        }
    }
    rep.machine(states, calls, cfgs.len() as u64);
    rep.sub("stamp-wrap", "two players: one combo whose cards occur nowhere else plus x (and x+1) other combos, against y combos, for EVERY factorisation x*y of 254, 255, 256, 65534, 65535 and 65536 that fits the deck; the evaluator scoped to the first 3 (thorough: 6) positions against M-deals: up to 196,608 deals inside one iterator, sizes at which an 8- or 16-bit per-deal counter, stamp or index comes round", cfgs.len() as u64, nontrivial, false, json!({"configurations": cfgs.len(), "odometer_states": states, "next_calls": calls}));
}
