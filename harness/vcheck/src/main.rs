//! vcheck <ID> quick|thorough | vcheck <ID> --replay <file>
mod c01;
mod c02;
mod c03;
mod c04;
mod c05;
mod c06;
mod c08;
mod c09;
mod c11;
mod c12;
mod c13;
mod c15;
mod c16;

use serde_json::Value;

fn main() {
    let args: Vec<String> = std::env::args().collect();
    if args.len() < 3 {
        eprintln!("usage: vcheck <ID> quick|thorough | vcheck <ID> --replay <file>");
        std::process::exit(2);
    }
    vlib::report::install_quiet_panic_hook();
    let id = args[1].as_str();
    if id == "C09-child" {
        std::process::exit(c09::long_child(&args[2], args[3].parse().unwrap()));
    }
    if id == "C15-handoff" {
        std::process::exit(c15::handoff_child(&args[2], args[3].parse().unwrap(), args[4].parse().unwrap()));
    }
    if id == "C15-child" {
        let code = c15::child(args[2].parse().unwrap(), args[3].parse().unwrap());
        std::process::exit(code);
    }
    if args[2] == "--replay" {
        let text = std::fs::read_to_string(&args[3]).expect("read replay file");
        let v: Value = serde_json::from_str(&text).expect("replay json");
        let code = vlib::par::on_big_stack(|| replay(id, &v));
        std::process::exit(code);
    }
    let tier = args[2].as_str();
    // a subject that never returns must not hang the check for ever: after the wall cap the run is abandoned
    // as a machinery failure (exit 2, never a verdict; non-termination as a property is C08's, through children)
    {
        let cap: u64 = std::env::var("VERIF_WALL_CAP_S").ok().and_then(|s| s.parse().ok()).unwrap_or(if tier == "thorough" { 4 * 3600 } else { 1500 });
        let what = format!("{} {}", id, tier);
        std::thread::spawn(move || {
            std::thread::sleep(std::time::Duration::from_secs(cap));
            eprintln!("MACHINERY: wall cap of {} s exceeded by {} (a subject call may not be returning); abandoning the run", cap, what);
            std::process::exit(2);
        });
    }
    if tier != "quick" && tier != "thorough" {
        eprintln!("tier must be quick or thorough");
        std::process::exit(2);
    }
    let code = vlib::par::on_big_stack(|| match id {
        "C01" => c01::run_c01(tier),
        "C07" => c01::run_c07(tier),
        "C02" => c02::run(tier),
        "C08" => c08::run(tier),
        "C15" => c15::run(tier),
        "C09" => c09::run(tier, c09::Mode::Total),
        "C10" => c09::run(tier, c09::Mode::Valid),
        "C12" => c12::run(tier),
        "C06" => c06::run(tier, c06::Prop::C06),
        "C17" => c06::run(tier, c06::Prop::C17),
        "C05" => c05::run(tier),
        "C16" => c16::run(tier),
        "C11" => c11::run(tier),
        "C03" => c03::run(tier),
        "C04" => c04::run(tier),
        "C13" => c13::run_c13(tier),
        "C14" => c13::run_c14(tier),
        _ => {
            eprintln!("unknown property {}", id);
            2
        }
    });
    std::process::exit(code);
}

fn replay(id: &str, v: &Value) -> i32 {
    let case = &v["case"];
    let sub = v["sub"].as_str().unwrap_or("");
    if id == "C13" || id == "C14" {
        // complete enumerations that take well under a second: re-run them whole, twice
        std::env::set_var("VERIF_REPLAY_KEY", v["key"].as_str().unwrap_or(""));
        println!("replay property={} sub={} key={}", id, sub, v["key"]);
        let a = if id == "C13" { c13::run_c13("quick") } else { c13::run_c14("quick") };
        let b = if id == "C13" { c13::run_c13("quick") } else { c13::run_c14("quick") };
        if a != b {
            println!("REPLAY-NONDETERMINISTIC: the two replay runs differ; the failure is not to be trusted");
            return 3;
        }
        return 0;
    }
    let f = |case: &Value| -> Value {
        match id {
            "C01" | "C07" => c01::replay(case),
            "C02" => c02::replay(case),
            "C08" => c08::replay(case),
            "C15" => c15::replay(case),
            "C09" | "C10" => c09::replay(case),
            "C12" => c12::replay(case),
            "C06" | "C17" => c06::replay(case),
            "C05" => c05::replay(case),
            "C16" => c16::replay(case),
            "C11" => c11::replay(case),
            "C03" => c03::replay(case),
            "C04" => c04::replay(case),
            _ => serde_json::json!({"error": format!("no replay engine for {} / {}", id, sub)}),
        }
    };
    let a = f(case);
    let b = f(case);
    println!("replay property={} sub={} key={}", id, sub, v["key"]);
    println!("  recorded expected = {}", v["expected"]);
    println!("  recorded observed = {}", v["observed"]);
    println!("  replay run 1      = {}", a);
    println!("  replay run 2      = {}", b);
    if a != b {
        println!("REPLAY-NONDETERMINISTIC: the two replay runs differ; the failure is not to be trusted");
        return 3;
    }
    0
}
