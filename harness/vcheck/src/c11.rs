//! C11: equities are invariant under suit relabelling and follow player reordering.
//! For each configuration the real evaluator is drained under all 24 suit permutations and
//! all player orders; integer tallies (wins by tie size) must be equal / permuted.

use serde_json::{json, Value};
use vlib::cards::*;
use vlib::deals::Config;
use vlib::par::par_map;
use vlib::report::{catch, Report, Violation};

#[derive(Clone, PartialEq, Debug)]
pub struct Tally {
    /// per player: wins[k] = showdowns where the player is flagged and winner_len == k (k = 1..=n)
    wins: Vec<Vec<u64>>,
    showdowns: u64,
    weight_sum_bits: u64,
    pots_ok: bool,
}

fn tally(cfg: &Config) -> Result<Tally, String> {
    let ev_cfg = cfg.clone();
    catch(move || {
        let n = ev_cfg.ranges.len();
        let mut t = Tally { wins: vec![vec![0; n + 1]; n], showdowns: 0, weight_sum_bits: 0, pots_ok: true };
        let mut wsum = 0f64;
        for sd in ev_cfg.evaluator() {
            let wl = sd.winner_len() as usize;
            let mut flagged = 0usize;
            for (i, p) in sd.players().iter().enumerate() {
                if p.is_winner() {
                    flagged += 1;
                    if wl >= 1 && wl <= n {
                        t.wins[i][wl] += 1;
                    }
                }
            }
            // the winners' shares of 1/winner_len add up to exactly one pot
            if flagged != wl || wl == 0 {
                t.pots_ok = false;
            }
            t.showdowns += 1;
            wsum += sd.probability() as f64;
        }
        t.weight_sum_bits = wsum.to_bits();
        t
    })
}

fn c(t: &str) -> u8 {
    let b = t.as_bytes();
    (RANK_CHARS.iter().position(|x| *x == b[0] as char).unwrap() * 4 + SUIT_CHARS.iter().position(|x| *x == b[1] as char).unwrap()) as u8
}
fn combo(t: &str) -> Combo {
    Combo::new(c(&t[0..2]), c(&t[2..4]))
}

fn lists() -> Vec<(&'static str, Vec<Vec<(Combo, f32)>>)> {
    let r = |v: &[(&str, f32)]| v.iter().map(|(t, w)| (combo(t), *w)).collect::<Vec<_>>();
    vec![
        ("L1", vec![r(&[("AsKs", 1.0), ("AhKh", 0.5), ("7s7h", 0.25)]), r(&[("KdKc", 1.0), ("KsKd", 0.5), ("As2s", 1.0)])]),
        ("L2", vec![r(&[("AsKs", 1.0), ("AhKh", 0.5)]), r(&[("KdKc", 1.0), ("KsKd", 1.0)]), r(&[("AdQd", 1.0), ("KsQs", 0.25)])]),
        // three different range widths (1, 3, 2): any internal reordering of the seats by width is a 3-cycle
        ("L4", vec![r(&[("AdKd", 1.0)]), r(&[("QsJs", 1.0), ("QhJh", 0.5), ("7d7c", 1.0)]), r(&[("TsTh", 1.0), ("AsTd", 0.5)])]),
        ("L3", vec![r(&[("7s7h", 1.0), ("7s2s", 0.5), ("As7d", 0.5)]), r(&[("AhAd", 1.0), ("2h2d", 0.5), ("7c2c", 1.0), ("AsKs", 0.125)])]),
        // a full table: ten one-combo players (seats 8 and 9 exist), suit-asymmetric, sharing kickers so that ties occur
        ("L5", ["KsQs", "KhJh", "KdTd", "Kc9c", "QhJs", "QdTs", "Qc9h", "JdTh", "Jc9d", "Tc9s"].iter().map(|t| r(&[(*t, 1.0)])).collect()),
        // a full table whose LATE seats hold overlapping two-combo ranges (player-vs-player blocking among seats 7-9,
        // wherever the rotation puts them)
        ("L6", vec![r(&[("KsQs", 1.0)]), r(&[("KhJh", 1.0)]), r(&[("KdTd", 1.0)]), r(&[("Kc9c", 1.0)]), r(&[("QhJs", 1.0)]), r(&[("QdTs", 1.0)]), r(&[("Qc9h", 1.0)]), r(&[("JdTh", 1.0), ("Jc9d", 0.5)]), r(&[("Jc9d", 1.0), ("Tc9s", 0.5)]), r(&[("Tc9s", 1.0), ("JdTh", 0.25)])]),
    ]
}

fn relabel_cfg(flop: &[u8; 3], ranges: &[Vec<(Combo, f32)>], perm: &[u8; 4], order: &[usize]) -> Config {
    let f = [relabel(flop[0], perm), relabel(flop[1], perm), relabel(flop[2], perm)];
    let rs: Vec<Vec<(Combo, f32)>> = order.iter().map(|&i| ranges[i].iter().map(|(cb, w)| (Combo::new(relabel(cb.0, perm), relabel(cb.1, perm)), *w)).collect()).collect();
    let label = Config::describe_ranges(&rs);
    Config { flop: f, ranges: rs, label }
}

fn orders(n: usize) -> Vec<Vec<usize>> {
    fn rec(cur: &mut Vec<usize>, n: usize, out: &mut Vec<Vec<usize>>) {
        if cur.len() == n {
            out.push(cur.clone());
            return;
        }
        for i in 0..n {
            if !cur.contains(&i) {
                cur.push(i);
                rec(cur, n, out);
                cur.pop();
            }
        }
    }
    let mut out = vec![];
    rec(&mut vec![], n, &mut out);
    out
}

pub fn run(tier: &str) -> i32 {
    let mut rep = Report::new("C11", tier);
    let thorough = tier == "thorough";
    let perms = suit_perms();
    let ls = lists();
    // flops over the 12 cards of ranks A, 7, 2 (closed under suit permutation)
    let pool: Vec<u8> = (0..52u8).filter(|x| [0u8, 7, 12].contains(&(x >> 2))).collect();
    let mut jobs: Vec<([u8; 3], usize, bool)> = vec![];
    for a in 0..pool.len() {
        for b in (a + 1)..pool.len() {
            for d in (b + 1)..pool.len() {
                if vlib::report::lite() && (a + 2 * b + 3 * d) % 4 != 0 {
                    continue;
                }
                for li in 0..ls.len() {
                    // the second ten-player list costs eight times the first: a sixth of the flops in quick
                    if ls[li].0 == "L6" && !thorough && (a + b + d) % 6 != 0 {
                        continue;
                    }
                    jobs.push(([pool[a], pool[b], pool[d]], li, true));
                }
            }
        }
    }
    if thorough {
        for f in all_flops() {
            jobs.push((f, 0, false));
            jobs.push((f, 2, false));
        }
    }
    let outs = par_map(jobs.len(), |j| {
        let (flop, li, all_orders) = jobs[j];
        let ranges = &ls[li].1;
        let n = ranges.len();
        let id: Vec<usize> = (0..n).collect();
        let base_cfg = relabel_cfg(&flop, ranges, &[0, 1, 2, 3], &id);
        let mut runs = 0u64;
        let mut bad = vec![];
        let base = match tally(&base_cfg) {
            Ok(t) => t,
            Err(e) => {
                bad.push((perms[0], id.clone(), json!({"panic": e})));
                return (bad, runs, 0u64, false);
            }
        };
        runs += 1;
        if !base.pots_ok {
            bad.push((perms[0], id.clone(), json!({"problem": "a showdown's flagged players differ from winner_len() or nobody is flagged"})));
        }
        let ords = if !all_orders {
            vec![id.clone(), id.iter().rev().cloned().collect()]
        } else if n <= 4 {
            orders(n)
        } else {
            // n! is out of reach: all rotations, the reversal and all adjacent transpositions (these generate every order)
            let mut v: Vec<Vec<usize>> = (0..n).map(|k| (0..n).map(|i| (i + k) % n).collect()).collect();
            v.push(id.iter().rev().cloned().collect());
            for k in 0..n - 1 {
                let mut t = id.clone();
                t.swap(k, k + 1);
                v.push(t);
            }
            v
        };
        for p in &perms {
            for o in &ords {
                if *p == [0, 1, 2, 3] && *o == id {
                    continue;
                }
                let cfg = relabel_cfg(&flop, ranges, p, o);
                runs += 1;
                match tally(&cfg) {
                    Err(e) => bad.push((*p, o.clone(), json!({"panic": e}))),
                    Ok(t) => {
                        // expected: player at new seat s is old player o[s]
                        let expect_wins: Vec<Vec<u64>> = o.iter().map(|&i| base.wins[i].clone()).collect();
                        if t.wins != expect_wins || t.showdowns != base.showdowns || t.weight_sum_bits != base.weight_sum_bits || !t.pots_ok {
                            if bad.len() < 2 {
                                bad.push((*p, o.clone(), json!({"tallies": t.wins, "showdowns": t.showdowns, "weight_sum": f64::from_bits(t.weight_sum_bits), "expected_tallies": expect_wins, "expected_showdowns": base.showdowns, "expected_weight_sum": f64::from_bits(base.weight_sum_bits)})));
                            }
                        }
                    }
                }
            }
        }
        // non-trivial: somebody wins outright, somebody ties, and some deal is blocked
        let ties: u64 = base.wins.iter().map(|w| w.iter().skip(2).sum::<u64>()).sum();
        let outright: u64 = base.wins.iter().map(|w| w[1]).sum();
        (bad, runs, base.showdowns, ties > 0 && outright > 0)
    });
    let mut runs = 0u64;
    let mut nontrivial = 0u64;
    let mut showdowns = 0u64;
    for (j, (bad, r, sd, nt)) in outs.into_iter().enumerate() {
        runs += r;
        showdowns += sd;
        if nt {
            nontrivial += 1;
        }
        let (flop, li, _) = jobs[j];
        for (p, o, obs) in bad {
            rep.violation(Violation {
                key: format!("flop={} list={} suit_perm={:?} player_order={:?}", cards_text(&flop), ls[li].0, p, o),
                sub: "relabel-reorder".into(),
                case: json!({"flop": flop.to_vec(), "list": li, "perm": p.to_vec(), "order": o}),
                expected: json!("tallies of outright wins and k-way ties equal to the unrelabelled run, permuted like the players"),
                observed: obs,
            });
        }
    }
    rep.machine(showdowns.max(1), runs, runs);
    rep.sub(
        "relabel-reorder",
        if thorough { "all 220 flops over ranks A,7,2 x 6 suit-asymmetric overlapping range lists (2, 3, 3, 2, 10 and 10 players; the last one, with overlapping two-combo ranges in three seats, on a sixth of the flops in quick) x 24 suit permutations x all player orders (10 players: rotations, reversal, adjacent transpositions); plus all 22,100 flops x 2 lists x 24 permutations x {identity, reversed} order. distinct_nontrivial = base configurations with both outright wins and ties" } else { "all 220 flops over the 12 cards of ranks A,7,2 x 6 suit-asymmetric overlapping range lists (2, 3, 3, 2, 10 and 10 players; the last one, with overlapping two-combo ranges in three seats, on a sixth of the flops in quick) x 24 suit permutations x all n! player orders (10 players: all rotations, the reversal and all adjacent transpositions). distinct_nontrivial = base configurations with both outright wins and ties" },
        runs,
        nontrivial,
        false,
        json!({"base_configurations": jobs.len(), "evaluator_runs": runs}),
    );
    rep.sample(json!({"flop": "As7h2d", "list": "L2: [AsKs,AhKh:0.5] [KdKc,KsKd] [AdQd,KsQs:0.25]", "perm": "s->h h->d d->c c->s", "order": [2, 0, 1]}));
    rep.bound("range lists are six fixed small lists (product of sizes <= 12); flops: 220 (quick) / all 22,100 (thorough)");
    rep.assume("weights are dyadic so the f64 sum of probabilities is exact in any order");
    rep.finish()
}

pub fn replay(case: &Value) -> Value {
    let f: Vec<u8> = case["flop"].as_array().unwrap().iter().map(|x| x.as_u64().unwrap() as u8).collect();
    let li = case["list"].as_u64().unwrap() as usize;
    let p: Vec<u8> = case["perm"].as_array().unwrap().iter().map(|x| x.as_u64().unwrap() as u8).collect();
    let o: Vec<usize> = case["order"].as_array().unwrap().iter().map(|x| x.as_u64().unwrap() as usize).collect();
    let ls = lists();
    let ranges = &ls[li].1;
    let id: Vec<usize> = (0..ranges.len()).collect();
    let flop = [f[0], f[1], f[2]];
    let base = tally(&relabel_cfg(&flop, ranges, &[0, 1, 2, 3], &id));
    let got = tally(&relabel_cfg(&flop, ranges, &[p[0], p[1], p[2], p[3]], &o));
    json!({"base": format!("{:?}", base), "relabelled": format!("{:?}", got)})
}
