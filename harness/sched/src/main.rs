//! C15 (B): the same actor bodies on real spawned threads under shuttle's exhaustive DFS
//! scheduler. `yield_now()` before every operation hands every call boundary to the scheduler.
//! Prints one JSON line: {"groups":[{name, rule, schedules, exhaustive, failure}]}
//! The body lives in body.rs so that the instrumented ("shadow") build can include it too.

use serde_json::{json, Value};
use shuttle::scheduler::DfsScheduler;
use shuttle::sync::Arc;
use shuttle::{thread, Config, Runner};
use std::sync::atomic::{AtomicUsize, Ordering};
use vlib::actors::*;
use vlib::cards;

include!("body.rs");
