fn run_actor_checked(spec: &Spec, expect: &[String], from: usize, to: usize, mut a: Actor) -> Actor {
    let _ = spec;
    for k in from..to {
        thread::yield_now();
        let o = a.step();
        assert_eq!(o, expect[k], "thread observation differs from the solo sequence at operation {}", k);
    }
    a
}

/// the solo reference of an actor, taken INSIDE a one-task shuttle execution: in the instrumented build the
/// subject's locks / atomics / thread-locals are shuttle's and only exist inside an execution
fn solo_safe(spec: &Spec) -> Vec<String> {
    let out: std::sync::Arc<std::sync::Mutex<Option<Vec<String>>>> = std::sync::Arc::new(std::sync::Mutex::new(None));
    let (o2, s2) = (out.clone(), spec.clone());
    let mut cfg = Config::default();
    cfg.failure_persistence = shuttle::FailurePersistence::None;
    let runner = Runner::new(DfsScheduler::new(Some(1), false), cfg);
    let r = std::panic::catch_unwind(std::panic::AssertUnwindSafe(|| {
        runner.run(move || {
            let v = solo(&s2);
            *o2.lock().unwrap() = Some(v);
        })
    }));
    let got = out.lock().unwrap().take();
    match (r, got) {
        (Ok(_), Some(v)) => v,
        _ => vec!["PANIC alone".to_string()],
    }
}

/// Preemption-bounded depth-first scheduler (iterative context bounding, Musuvathi & Qadeer): explores EVERY
/// schedule with at most `bound` preemptions. Switching away from a task that could continue is a preemption,
/// unless the task is yielding (our harness yields before every API call, so call-granularity interleavings stay
/// unbounded) - a switch forced by blocking or termination is free. Stateless: a stack of (choice, alternatives).
#[derive(Debug)]
struct PbDfs {
    bound: usize,
    max_iterations: Option<usize>,
    iterations: usize,
    levels: Vec<(usize, usize)>,
    steps: usize,
    preemptions: usize,
    done: bool,
    /// where the path of the last execution is published (process-per-execution mode reads it back)
    publish: Option<std::sync::Arc<std::sync::Mutex<Vec<(usize, usize)>>>>,
}

impl PbDfs {
    fn new(bound: usize, max_iterations: Option<usize>) -> Self {
        PbDfs { bound, max_iterations, iterations: 0, levels: vec![], steps: 0, preemptions: 0, done: false, publish: None }
    }
    /// ONE execution that follows `prefix` (a path of (choice, alternatives) pairs) and takes choice 0 afterwards
    fn single(bound: usize, prefix: Vec<(usize, usize)>, publish: std::sync::Arc<std::sync::Mutex<Vec<(usize, usize)>>>) -> Self {
        PbDfs { bound, max_iterations: Some(1), iterations: 0, levels: prefix, steps: 0, preemptions: 0, done: false, publish: Some(publish) }
    }
}

impl shuttle::scheduler::Scheduler for PbDfs {
    fn new_execution(&mut self) -> Option<shuttle::scheduler::Schedule> {
        if self.done {
            return None;
        }
        if self.iterations > 0 {
            // advance the deepest level that still has an alternative
            loop {
                match self.levels.last_mut() {
                    None => {
                        self.done = true;
                        return None;
                    }
                    Some((i, n)) => {
                        if *i + 1 < *n {
                            *i += 1;
                            break;
                        }
                    }
                }
                self.levels.pop();
            }
        }
        if self.max_iterations.map(|m| self.iterations >= m).unwrap_or(false) {
            return None;
        }
        self.iterations += 1;
        self.steps = 0;
        self.preemptions = 0;
        Some(shuttle::scheduler::Schedule::new(0x5eed))
    }

    fn next_task(&mut self, runnable: &[&shuttle::scheduler::Task], current: Option<shuttle::scheduler::TaskId>, is_yielding: bool) -> Option<shuttle::scheduler::TaskId> {
        let mut ids: Vec<shuttle::scheduler::TaskId> = runnable.iter().map(|t| t.id()).collect();
        ids.sort();
        let cur = current.filter(|c| ids.contains(c));
        let mut allowed: Vec<shuttle::scheduler::TaskId> = vec![];
        if let Some(c) = cur {
            allowed.push(c);
        }
        let may_switch = cur.is_none() || is_yielding || self.preemptions < self.bound;
        if may_switch {
            for id in &ids {
                if Some(*id) != cur {
                    allowed.push(*id);
                }
            }
        }
        let idx = if self.steps < self.levels.len() {
            let (i, n) = self.levels[self.steps];
            assert_eq!(n, allowed.len(), "the execution diverged while replaying a schedule prefix (uncontrolled nondeterminism)");
            i
        } else {
            self.levels.push((0, allowed.len()));
            0
        };
        let choice = allowed[idx];
        if std::env::var("SCHED_TRACE").is_ok() {
            eprintln!("step {} cur={:?} yielding={} runnable={:?} allowed={:?} -> {:?} (preemptions so far {})", self.steps, cur, is_yielding, ids, allowed, choice, self.preemptions);
        }
        if cur.is_some() && !is_yielding && Some(choice) != cur {
            self.preemptions += 1;
        }
        self.steps += 1;
        if let Some(p) = &self.publish {
            if let Ok(mut g) = p.lock() {
                *g = self.levels.clone();
            }
        }
        Some(choice)
    }

    fn next_u64(&mut self) -> u64 {
        0
    }
}

fn explore<F: Fn() + Send + Sync + 'static>(name: &str, rule: &str, cap: Option<usize>, f: F) -> std::thread::JoinHandle<Value> {
    let (name, rule) = (name.to_string(), rule.to_string());
    if let Ok(only) = std::env::var("SCHED_ONLY") {
        if only != name {
            return std::thread::spawn(|| Value::Null);
        }
    }
    if std::env::var("SCHED_SEQUENTIAL").is_ok() {
        // instrumented build: the subject's statics may be shuttle objects, which must not be touched by two
        // executions at once - explore one group at a time
        let v = explore_inner(&name, &rule, cap, f);
        return std::thread::spawn(move || v);
    }
    std::thread::spawn(move || explore_inner(&name, &rule, cap, f))
}

fn explore_inner<F: Fn() + Send + Sync + 'static>(name: &str, rule: &str, cap: Option<usize>, f: F) -> Value {
    let mut cfg = Config::default();
    cfg.failure_persistence = shuttle::FailurePersistence::None;
    let bound: Option<usize> = std::env::var("SCHED_PREEMPTION_BOUND").ok().and_then(|b| b.parse().ok());
    // process-per-execution mode: this process performs exactly ONE execution along the given path prefix and
    // prints the complete path; the parent does the depth-first search over processes, so that every execution
    // starts from a fresh process image (statics, thread-locals and OnceLocks of the subject included)
    if let Ok(prefix) = std::env::var("SCHED_SINGLE_PREFIX") {
        let path: Vec<(usize, usize)> = prefix.split(';').filter(|x| !x.is_empty()).map(|x| { let mut it = x.split(','); (it.next().unwrap().parse().unwrap(), it.next().unwrap().parse().unwrap()) }).collect();
        let cell = std::sync::Arc::new(std::sync::Mutex::new(vec![]));
        let runner = Runner::new(PbDfs::single(bound.unwrap_or(0), path, cell.clone()), cfg);
        let r = std::panic::catch_unwind(std::panic::AssertUnwindSafe(|| runner.run(f)));
        let levels = cell.lock().map(|g| g.clone()).unwrap_or_default();
        let failure = match r {
            Ok(_) => Value::Null,
            Err(e) => json!(if let Some(s) = e.downcast_ref::<String>() { s.clone() } else if let Some(s) = e.downcast_ref::<&str>() { s.to_string() } else { "panic".to_string() }),
        };
        return json!({"name": name, "rule": rule, "single": true, "levels": levels.iter().map(|(i, n)| vec![*i, *n]).collect::<Vec<_>>(), "failure": failure});
    }
    if std::env::var("SCHED_RANDOM").is_ok() {
        // diagnostic only (sampling): random schedules, used to validate a group's oracle against a known race
        let runner = Runner::new(shuttle::scheduler::RandomScheduler::new(cap.unwrap_or(10_000)), cfg);
        let r = std::panic::catch_unwind(std::panic::AssertUnwindSafe(|| runner.run(f)));
        let failure = match r {
            Ok(n) => json!({"ok_after": n}),
            Err(e) => json!(if let Some(s) = e.downcast_ref::<String>() { s.clone() } else if let Some(s) = e.downcast_ref::<&str>() { s.to_string() } else { "panic".to_string() }),
        };
        return json!({"name": name, "rule": rule, "random": true, "failure": failure});
    }
    let r = match bound {
        Some(b) => {
            let runner = Runner::new(PbDfs::new(b, cap), cfg);
            std::panic::catch_unwind(std::panic::AssertUnwindSafe(|| runner.run(f)))
        }
        None => {
            let runner = Runner::new(DfsScheduler::new(cap, false), cfg);
            std::panic::catch_unwind(std::panic::AssertUnwindSafe(|| runner.run(f)))
        }
    };
    match r {
        Ok(n) => json!({"name": name, "rule": rule, "schedules": n, "exhaustive": cap.map(|c| n < c).unwrap_or(true), "cap": cap, "preemption_bound": bound, "failure": Value::Null}),
        Err(e) => {
            let msg = if let Some(s) = e.downcast_ref::<String>() { s.clone() } else if let Some(s) = e.downcast_ref::<&str>() { s.to_string() } else { "panic".into() };
            json!({"name": name, "rule": rule, "schedules": 0, "exhaustive": false, "cap": cap, "failure": msg})
        }
    }
}

static EXECUTIONS: AtomicUsize = AtomicUsize::new(0);

fn main() {
    let tier = std::env::args().nth(1).unwrap_or_else(|| "quick".into());
    let thorough = tier == "thorough";
    let cap = Some(if thorough { 2_000_000 } else { 40_000 });
    let gs = groups();
    let find = |n: &str| gs.iter().find(|g| g.0 == n).unwrap().1.clone();
    let mut out = vec![];
    // quiet: assertion failures inside shuttle tasks are reported through the returned value
    std::panic::set_hook(Box::new(|_| {}));

    // G1: two threads, one evaluator each (identical / other flop), every call boundary a scheduling point
    for gname in ["identical", "other-flop-same-ranges", "overlapping-scopes", "near-flops", "three-players"] {
        let specs = find(gname);
        // shorter programs in quick: the DFS scheduler has no partial-order reduction
        let specs: Vec<Spec> = specs.into_iter().map(|s| match s { Spec::Eval { cfg, scope, .. } => Spec::Eval { cfg, scope: (scope.0, scope.1, scope.2, if thorough { scope.3 } else { scope.3.min(scope.1 + 3) }), extra: 1 }, o => o }).collect();
        let solos: Vec<Vec<String>> = specs.iter().map(solo_safe).collect();
        let lens: Vec<usize> = solos.iter().map(|s| s.len()).collect();
        let (sp, so) = (specs.clone(), solos.clone());
        out.push(explore(&format!("two-threads/{}", gname), &format!("two shuttle threads, each building and draining its own evaluator ({:?} operations), yield_now() before every operation; each observation compared with the solo sequence; DFS over all schedules", lens), cap, move || {
            EXECUTIONS.fetch_add(1, Ordering::Relaxed);
            let hs: Vec<_> = (0..sp.len())
                .map(|i| {
                    let (s, e) = (sp[i].clone(), so[i].clone());
                    thread::spawn(move || {
                        let a = Actor::new(&s);
                        run_actor_checked(&s, &e, 0, e.len(), a);
                    })
                })
                .collect();
            for h in hs {
                h.join().unwrap();
            }
        }));
    }

    // G1b: first sights. Process-wide tables keyed by the flop are only ever *filled* on first sight; inside one
    // process that happens once, in the very first (preemption-free) execution, and the schedules that interleave two
    // first sights are never reached. This group is therefore explored ONE EXECUTION PER PROCESS (see
    // SCHED_SINGLE_PREFIX): both threads build an evaluator on flop X (two first sights of the same flop), then on flop
    // Y (a later first sight, then a second use). In-process exploration advances through the flop list instead, so
    // that it stays meaningful too. The oracle is structural, so no solo run has to touch the flop first:
    // the board starts with the evaluator's own flop, the five board cards are distinct, hole cards are the range's
    // and lie off the board.
    {
        use espada::evaluator::FlopExhaustiveEvaluator;
        use espada::hand_range::HandRange;
        use cards::{all_flops, board_opt, card_text, cards_text, idx_of};
        let hole: Vec<u8> = vec![7 * 4, 7 * 4 + 1, 9 * 4 + 2, 9 * 4 + 1]; // 7s7h, 5d5h
        let flops: Vec<[u8; 3]> = all_flops().into_iter().filter(|f| f.iter().all(|c| !hole.contains(c))).collect();
        let fresh = std::sync::Arc::new(AtomicUsize::new(0));
        let flops = std::sync::Arc::new(flops);
        out.push(explore("two-threads/x-then-y", "two shuttle threads; in execution k both build an evaluator on flop 2k of the flop list (a flop the process has not seen), take two showdowns and drop it, then do the same on flop 2k+1; one yield_now() per evaluator; oracle from the evaluator's own inputs alone (own flop first, turn and river the cards of its own deck at the position, five distinct board cards, the range's hole cards off the board)", cap, move || {
            let k = fresh.fetch_add(1, Ordering::Relaxed);
            // X and Y share no card, and the scope starts at the first deck card: a deck that belongs to another flop shows
            let (fx, fy) = (flops[(2 * k) % flops.len()], flops[(flops.len() / 2 + 2 * k + 1) % flops.len()]);
            let hs: Vec<_> = (0..2)
                .map(|_| {
                    thread::spawn(move || {
                        let ranges: Vec<HandRange> = vec!["7s7h".parse().unwrap(), "5d5h,7s7h:0.5".parse().unwrap()];
                        for flop in [fx, fy] {
                            // ONE yield per evaluator (call-granularity interleavings of this group are few on purpose: the
                            // schedules of interest are those that switch INSIDE a call, at the subject's own lock operations)
                            thread::yield_now();
                            let mut ev = FlopExhaustiveEvaluator::new(&board_opt(&flop), &ranges);
                            ev.scope(0, 1, 0, 4);
                            let mut it = ev.into_iter();
                            let own_deck = cards::deck_without(&flop);
                            for k in 0..2usize {
                                if let Some(sd) = it.next() {
                                    // one legal deal per position here: showdown k is at position (0, k + 1) of the evaluator's OWN deck
                                    let b4: Vec<u8> = sd.board().iter().map(idx_of).collect();
                                    assert!(b4[3] == own_deck[0] && b4[4] == own_deck[k + 1], "an evaluator on flop {} dealt turn/river {} where its own deck has {}{}", cards_text(&flop), cards_text(&b4[3..5]), card_text(own_deck[0]), card_text(own_deck[k + 1]));
                                    let b: Vec<u8> = sd.board().iter().map(idx_of).collect();
                                    let mut sorted = b.clone();
                                    sorted.sort_unstable();
                                    sorted.dedup();
                                    let holes: Vec<u8> = sd.players().iter().flat_map(|p| { let h = p.hole_cards(); [idx_of(&h[0]), idx_of(&h[1])] }).collect();
                                    let ok = b[0..3] == flop[..] && sorted.len() == 5 && holes.iter().all(|h| !b.contains(h));
                                    assert!(ok, "an evaluator on flop {} dealt the board {} to the hole cards {}", cards_text(&flop), cards_text(&b), holes.iter().map(|h| card_text(*h)).collect::<String>());
                                }
                            }
                        }
                    })
                })
                .collect();
            for h in hs {
                h.join().unwrap();
            }
        }));
    }

    // G2: three threads (two evaluators and the parser/formatter)
    {
        let specs = vec![find("four-evaluators")[0].clone(), find("four-evaluators")[2].clone(), Spec::Parser { text: "AKs:0.5".into() }];
        let solos: Vec<Vec<String>> = specs.iter().map(solo_safe).collect();
        // the DFS scheduler has no partial-order reduction: keep three-thread programs short
        let keep = if thorough { 3 } else { 2 };
        let solos: Vec<Vec<String>> = solos.into_iter().map(|s| s.into_iter().take(keep).collect()).collect();
        let lens: Vec<usize> = solos.iter().map(|s| s.len()).collect();
        let (sp, so) = (specs.clone(), solos.clone());
        out.push(explore("three-threads", &format!("three shuttle threads: two evaluators on different flops and the parser/formatter ({:?} operations), yield_now() before every operation", lens), cap, move || {
            let hs: Vec<_> = (0..sp.len())
                .map(|i| {
                    let (s, e) = (sp[i].clone(), so[i].clone());
                    thread::spawn(move || {
                        let a = Actor::new(&s);
                        run_actor_checked(&s, &e, 0, e.len(), a);
                    })
                })
                .collect();
            for h in hs {
                h.join().unwrap();
            }
        }));
    }

    // G3: values moved between threads: built on the parent, iterated on a child, handed to a second child mid-way
    {
        let spec = find("identical")[0].clone();
        let spec = match spec { Spec::Eval { cfg, scope, .. } => Spec::Eval { cfg, scope: (scope.0, scope.1, scope.2, scope.1 + 3), extra: 1 }, o => o };
        let e = solo_safe(&spec);
        let n = e.len();
        out.push(explore("moved-between-threads", &format!("an evaluator built on the parent thread, iterated for 2 operations on a first child, handed back and finished on a second child, while a third thread drains an identical evaluator ({} operations each)", n), cap, move || {
            let (s1, e1) = (spec.clone(), e.clone());
            let other = thread::spawn(move || {
                let a = Actor::new(&s1);
                run_actor_checked(&s1, &e1, 0, e1.len(), a);
            });
            let mut a = Actor::new(&spec);
            let o = a.step(); // built on the parent
            assert_eq!(o, e[0]);
            let (s2, e2) = (spec.clone(), e.clone());
            // ForceSend: whether the types are Send is the compile-time probe's verdict, not this explorer's
            let a = ForceSend(a);
            let h = thread::spawn(move || {
                let a = a;
                ForceSend(run_actor_checked(&s2, &e2, 1, 3, a.0))
            });
            let a = h.join().unwrap();
            let (s3, e3) = (spec.clone(), e.clone());
            let h = thread::spawn(move || {
                let a = a;
                let n = e3.len();
                run_actor_checked(&s3, &e3, 3, n, a.0);
            });
            h.join().unwrap();
            other.join().unwrap();
        }));
    }

    // G4: a HandRange and a Showdown shared through Arc and read concurrently
    {
        let text = "QQ+,AKs:0.5,AsKd";
        let range: espada::hand_range::HandRange = text.parse().unwrap();
        let want_text = range.to_string();
        let spec = find("identical")[0].clone();
        let first_sd = solo_safe(&spec).get(2).cloned().unwrap_or_default();
        out.push(explore("shared-through-arc", "one HandRange and one Showdown behind an Arc, read by two threads at once (to_string / rank_pairs / players / board), yield_now() between reads", cap, move || {
            let r = Arc::new(ForceSend(text.parse::<espada::hand_range::HandRange>().unwrap()));
            let mut a = Actor::new(&spec);
            a.step();
            a.step();
            let sd = match &mut a.state {
                State::EvalRunning(it) => Arc::new(ForceSend(it.next().unwrap())),
                _ => unreachable!(),
            };
            let hs: Vec<_> = (0..2)
                .map(|_| {
                    let (r, sd, wt, fs) = (r.clone(), sd.clone(), want_text.clone(), first_sd.clone());
                    thread::spawn(move || {
                        thread::yield_now();
                        assert_eq!(r.0.to_string(), wt);
                        thread::yield_now();
                        assert_eq!(showdown_sig(&sd.0), fs);
                        thread::yield_now();
                        assert_eq!(r.0.rank_pairs().len(), 4);
                        thread::yield_now();
                        assert_eq!(sd.0.players().len(), 2);
                    })
                })
                .collect();
            for h in hs {
                h.join().unwrap();
            }
        }));
    }
    let out: Vec<Value> = out.into_iter().map(|h| h.join().expect("explorer thread")).filter(|v| !v.is_null()).collect();
    println!("{}", json!({"groups": out, "executions_counted_in_g1": EXECUTIONS.load(Ordering::Relaxed)}));
}
