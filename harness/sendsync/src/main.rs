//! C15 (C): the only content of this crate is the trait-bound assertion; failing to compile is the verdict.
use espada::card::Card;
use espada::evaluator::{FlopExhaustiveEvaluator, MadeHand, Showdown};
use espada::hand_range::{CardPair, HandRange, HandRangeToken};

fn ok<T: Send + Sync>() {}

fn main() {
    ok::<FlopExhaustiveEvaluator>();
    ok::<<FlopExhaustiveEvaluator as IntoIterator>::IntoIter>();
    ok::<HandRange>();
    ok::<HandRangeToken>();
    ok::<CardPair>();
    ok::<Card>();
    ok::<MadeHand>();
    ok::<Showdown>();
}
