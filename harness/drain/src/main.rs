fn main(){}
