//! C08 child: builds one configuration from argv, drains the evaluator on a thread with the
//! default 2 MiB stack and prints `count=<n>`. The exit status is the observation:
//! 0 = returned normally, 101 = panic, signal = stack exhaustion / abort.
//!
//! usage: drain <flop: 3 card texts concatenated> [scope:<tf>,<rf>,<tt>,<rt>] [via:for|count|nth|skip|last|fold] <range-spec>...
//!   range-spec:  empty | text:<range notation> | first:<N> | firstnot:<card>:<N> | list:<AsKs,AsQd,...>
//! This crate is built with the stock dev and release profiles and nothing else.

use espada::card::{Card, Rank, Suit};
use espada::evaluator::FlopExhaustiveEvaluator;
use espada::hand_range::{CardPair, HandRange};

const RANKS: [Rank; 13] = [
    Rank::Ace, Rank::King, Rank::Queen, Rank::Jack, Rank::Ten, Rank::Nine, Rank::Eight,
    Rank::Seven, Rank::Six, Rank::Five, Rank::Four, Rank::Trey, Rank::Deuce,
];
const SUITS: [Suit; 4] = [Suit::Spade, Suit::Heart, Suit::Diamond, Suit::Club];
const RC: &str = "AKQJT98765432";
const SC: &str = "shdc";

fn card(i: usize) -> Card {
    Card::new(RANKS[i / 4], SUITS[i % 4])
}
fn card_of_text(t: &str) -> usize {
    let b = t.as_bytes();
    RC.find(b[0] as char).unwrap() * 4 + SC.find(b[1] as char).unwrap()
}

fn range_of(spec: &str) -> HandRange {
    if spec == "empty" {
        return HandRange::empty();
    }
    if let Some(t) = spec.strip_prefix("text:") {
        return t.parse().unwrap();
    }
    let mut combos: Vec<(usize, usize)> = vec![];
    for a in 0..52 {
        for b in (a + 1)..52 {
            combos.push((a, b));
        }
    }
    let chosen: Vec<(usize, usize)> = if let Some(n) = spec.strip_prefix("first:") {
        combos.into_iter().take(n.parse().unwrap()).collect()
    } else if let Some(rest) = spec.strip_prefix("firstnot:") {
        let (c, n) = rest.split_once(':').unwrap();
        let c = card_of_text(c);
        combos.into_iter().filter(|(a, b)| *a != c && *b != c).take(n.parse().unwrap()).collect()
    } else if let Some(rest) = spec.strip_prefix("list:") {
        rest.split(',').map(|t| (card_of_text(&t[0..2]), card_of_text(&t[2..4]))).collect()
    } else {
        panic!("bad range spec {}", spec);
    };
    chosen.into_iter().map(|(a, b)| (CardPair::new(card(a), card(b)), 1.0f32)).collect()
}

fn main() {
    let args: Vec<String> = std::env::args().collect();
    let f = &args[1];
    let board = [
        Some(card(card_of_text(&f[0..2]))),
        Some(card(card_of_text(&f[2..4]))),
        Some(card(card_of_text(&f[4..6]))),
        None,
        None,
    ];
    let mut rest = &args[2..];
    let mut scope: Option<(u8, u8, u8, u8)> = None;
    if let Some(sc) = rest.first().and_then(|a| a.strip_prefix("scope:")) {
        let v: Vec<u8> = sc.split(',').map(|x| x.parse().unwrap()).collect();
        scope = Some((v[0], v[1], v[2], v[3]));
        rest = &rest[1..];
    }
    let mut via = "for".to_string();
    if let Some(v) = rest.first().and_then(|a| a.strip_prefix("via:")) {
        via = v.to_string();
        rest = &rest[1..];
    }
    let players: Vec<HandRange> = rest.iter().map(|s| range_of(s)).collect();
    // the property names the default 2 MiB thread stack
    let h = std::thread::Builder::new()
        .stack_size(2 * 1024 * 1024)
        .spawn(move || {
            let mut evaluator = FlopExhaustiveEvaluator::new(&board, &players);
            if let Some((a, b, c, d)) = scope {
                evaluator.scope(a, b, c, d);
            }
            // "iterating the evaluator to the end" through each of the consuming methods of Iterator
            let mut n: u64 = 0;
            match via.as_str() {
                "count" => n = evaluator.into_iter().count() as u64,
                "nth" => {
                    let mut it = evaluator.into_iter();
                    if it.nth(1).is_some() {
                        n = 2;
                    }
                    n += it.count() as u64;
                }
                "skip" => n = evaluator.into_iter().skip(2).count() as u64,
                "last" => n = evaluator.into_iter().last().is_some() as u64,
                "fold" => n = evaluator.into_iter().fold(0u64, |a, _| a + 1),
                _ => {
                    // to the end, and then 600 more polls (a round-robin merge of scoped evaluators, a polling loop or a
                    // reused by_ref() keeps calling next() on an exhausted iterator): it stays exhausted, without panicking
                    let mut it = evaluator.into_iter();
                    while it.next().is_some() {
                        n += 1;
                    }
                    for k in 0..600 {
                        if it.next().is_some() {
                            eprintln!("next() returned a showdown on poll {} after the enumeration had ended", k + 1);
                            std::process::exit(102);
                        }
                    }
                }
            }
            n
        })
        .unwrap();
    match h.join() {
        Ok(n) => println!("count={}", n),
        Err(_) => std::process::exit(101),
    }
}
