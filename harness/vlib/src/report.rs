//! Evidence, replay and known-finding plumbing shared by every check.

use serde_json::{json, Map, Value};
use std::collections::BTreeMap;
use std::io::Write;
use std::path::PathBuf;
use std::time::Instant;

pub fn verif_root() -> PathBuf {
    std::env::var("VERIF_ROOT")
        .map(PathBuf::from)
        .unwrap_or_else(|_| PathBuf::from("/verif"))
}

#[derive(Clone, Debug)]
pub struct Violation {
    /// canonical failing input: what a known-finding line is matched against
    pub key: String,
    /// sub-check (engine) that found it
    pub sub: String,
    /// everything needed to re-run exactly this case
    pub case: Value,
    pub expected: Value,
    pub observed: Value,
}

pub struct Report {
    pub property: String,
    pub tier: String,
    pub seed: u64,
    start: Instant,
    pub violations: Vec<Violation>,
    pub violations_total: u64,
    coverage: Map<String, Value>,
    subs: Vec<Value>,
    samples: Vec<Value>,
    assumptions: Vec<String>,
    bounds: Vec<String>,
    pub evaluations: u64,
    pub distinct_nontrivial: u64,
    pub states: u64,
    pub transitions: u64,
    pub traces: u64,
    exhaustive_all: bool,
    any_sub: bool,
    rules: Vec<String>,
}

pub const MAX_VIOLATIONS_KEPT: usize = 100;

impl Report {
    pub fn new(property: &str, tier: &str) -> Report {
        let seed = std::env::var("VERIF_SEED")
            .ok()
            .and_then(|s| s.parse::<u64>().ok())
            .unwrap_or(0);
        Report {
            property: property.to_string(),
            tier: tier.to_string(),
            seed,
            start: Instant::now(),
            violations: vec![],
            violations_total: 0,
            coverage: Map::new(),
            subs: vec![],
            samples: vec![],
            assumptions: vec![],
            bounds: vec![],
            evaluations: 0,
            distinct_nontrivial: 0,
            states: 0,
            transitions: 0,
            traces: 0,
            exhaustive_all: true,
            any_sub: false,
            rules: vec![],
        }
    }

    pub fn violation(&mut self, v: Violation) {
        self.violations_total += 1;
        // keep at most MAX per sub-check so that one noisy family cannot hide another
        let in_sub = self.violations.iter().filter(|x| x.sub == v.sub).count();
        if in_sub < MAX_VIOLATIONS_KEPT {
            self.violations.push(v);
        }
    }

    pub fn assume(&mut self, s: &str) {
        self.assumptions.push(s.to_string());
    }
    pub fn bound(&mut self, s: &str) {
        self.bounds.push(s.to_string());
    }
    pub fn sample(&mut self, v: Value) {
        if self.samples.len() < 40 {
            self.samples.push(v);
        }
    }
    pub fn set(&mut self, key: &str, v: Value) {
        self.coverage.insert(key.to_string(), v);
    }

    /// record one sub-check: what it enumerated, how much, whether its space was complete
    pub fn sub(
        &mut self,
        name: &str,
        rule: &str,
        evaluations: u64,
        distinct_nontrivial: u64,
        exhaustive: bool,
        extra: Value,
    ) {
        self.any_sub = true;
        self.evaluations += evaluations;
        self.distinct_nontrivial += distinct_nontrivial;
        self.exhaustive_all &= exhaustive;
        self.rules.push(format!("[{}] {}", name, rule));
        let secs = self.start.elapsed().as_secs_f64();
        eprintln!(
            "  [{} {}] {}: evaluations={} distinct_nontrivial={} exhaustive={} t={:.1}s",
            self.property, self.tier, name, evaluations, distinct_nontrivial, exhaustive, secs
        );
        self.subs.push(json!({
            "name": name, "rule": rule, "evaluations": evaluations,
            "distinct_nontrivial": distinct_nontrivial, "exhaustive": exhaustive,
            "extra": extra, "finished_at_s": secs,
        }));
    }

    /// state-machine style counts (added on top of `sub`)
    pub fn machine(&mut self, states: u64, transitions: u64, traces: u64) {
        self.states += states;
        self.transitions += transitions;
        self.traces += traces;
    }

    pub fn elapsed(&self) -> f64 {
        self.start.elapsed().as_secs_f64()
    }

    /// write evidence, print verdict lines, return the process exit code
    pub fn finish(mut self) -> i32 {
        // replay mode for checks that are cheap enough to be re-run as a whole: report only
        // whether the recorded finding key shows up again; write nothing
        if let Ok(key) = std::env::var("VERIF_REPLAY_KEY") {
            let hit = self.violations.iter().find(|v| v.key == key);
            match hit {
                Some(v) => println!("  replay: key still violated: sub={} observed={}", v.sub, short(&v.observed)),
                None => println!("  replay: key not violated in this run ({} violations in total)", self.violations_total),
            }
            return if hit.is_some() { 1 } else { 0 };
        }
        let root = verif_root();
        let known = KnownFindings::load(&root.join("KNOWN_FINDINGS.txt"));
        let mut unlisted = 0u64;
        let mut known_hits: BTreeMap<String, u64> = BTreeMap::new();
        let mut out = std::io::stdout();
        let replay_dir = root.join("replays");
        let _ = std::fs::create_dir_all(&replay_dir);
        // remove stale replay files of this property
        if let Ok(rd) = std::fs::read_dir(&replay_dir) {
            for e in rd.flatten() {
                let n = e.file_name().to_string_lossy().to_string();
                if n.starts_with(&format!("{}-", self.property)) {
                    let _ = std::fs::remove_file(e.path());
                }
            }
        }
        let mut k = 0;
        let mut listed_in_evidence = vec![];
        // print round-robin over sub-checks so that the first replay files are diverse
        let mut rank_in_sub: BTreeMap<String, usize> = BTreeMap::new();
        let mut order: Vec<(usize, usize)> = vec![];
        for (i, v) in self.violations.iter().enumerate() {
            let r = rank_in_sub.entry(v.sub.clone()).or_insert(0);
            order.push((*r, i));
            *r += 1;
        }
        order.sort();
        let ordered: Vec<&Violation> = order.iter().map(|(_, i)| &self.violations[*i]).collect();
        for v in ordered {
            if let Some(text) = known.matches(&self.property, &v.key) {
                *known_hits.entry(format!("{} :: {}", v.key, text)).or_insert(0) += 1;
                continue;
            }
            unlisted += 1;
            if k < 25 {
                let profile = std::env::var("VERIF_PROFILE").unwrap_or_else(|_| "checked".into());
                let suffix = if profile == "checked" { String::new() } else { format!("-{}", profile) };
                let path = replay_dir.join(format!("{}{}-{}.json", self.property, suffix, k));
                let body = json!({
                    "property": self.property, "sub": v.sub, "key": v.key,
                    "case": v.case, "expected": v.expected, "observed": v.observed,
                    "profile": profile,
                });
                let _ = std::fs::write(&path, serde_json::to_string_pretty(&body).unwrap());
                let _ = writeln!(
                    out,
                    "VIOLATION property={} replay={}",
                    self.property,
                    path.display()
                );
                let _ = writeln!(out, "  sub={} key={}", v.sub, v.key);
                let _ = writeln!(out, "  expected={}", short(&v.expected));
                let _ = writeln!(out, "  observed={}", short(&v.observed));
                listed_in_evidence.push(json!({"key": v.key, "sub": v.sub, "replay": path.display().to_string()}));
                k += 1;
            }
        }
        // violations beyond the kept window cannot be matched against known findings: count them as unlisted
        let overflow = self.violations_total - self.violations.len() as u64;
        if overflow > 0 {
            unlisted += overflow;
            let _ = writeln!(
                out,
                "  ({} further violations not individually recorded)",
                overflow
            );
        }
        for (k, n) in &known_hits {
            let _ = writeln!(out, "KNOWN-FINDING: property={} {} (x{})", self.property, k, n);
        }
        let level = "model_checking";
        let mut cov = std::mem::take(&mut self.coverage);
        cov.insert("evaluations".into(), json!(self.evaluations));
        cov.insert("distinct_nontrivial".into(), json!(self.distinct_nontrivial));
        cov.insert("rule".into(), json!(self.rules.join(" || ")));
        if self.samples.is_empty() {
            self.samples.push(json!("(no sample recorded)"));
        }
        cov.insert("samples".into(), Value::Array(self.samples.clone()));
        if self.states > 0 && self.transitions > 0 {
            cov.insert("states".into(), json!(self.states));
            cov.insert("transitions".into(), json!(self.transitions));
            cov.insert("traces_validated_against_impl".into(), json!(self.traces));
        }
        cov.insert(
            "exhaustive".into(),
            json!(self.any_sub && self.exhaustive_all),
        );
        cov.insert("bounds".into(), json!(self.bounds));
        // the build profile of espada + harness in this pass ("checked" = release with overflow checks and debug
        // assertions; "release" = the stock release profile users get), and the summary of the other pass if ./check ran two
        cov.insert("build_profile".into(), json!(std::env::var("VERIF_PROFILE").unwrap_or_else(|_| "checked".into())));
        if lite() {
            cov.insert("lite_pass".into(), json!("this (second, release-profile) pass runs every family with the largest ones thinned; the first pass ran them in full"));
        }
        if let Ok(other) = std::env::var("VERIF_OTHER_PASS") {
            cov.insert("other_pass".into(), json!(other));
        }
        cov.insert("sub_checks".into(), Value::Array(self.subs.clone()));
        cov.insert("unlisted_violations".into(), Value::Array(listed_in_evidence));
        cov.insert(
            "known_findings_matched".into(),
            json!(known_hits.keys().collect::<Vec<_>>()),
        );
        let ev = json!({
            "property_id": self.property,
            "tier": self.tier,
            "seed": self.seed,
            "level": level,
            "coverage": Value::Object(cov),
            "assumptions": self.assumptions,
            "wall_s": self.start.elapsed().as_secs_f64(),
            "violations": self.violations_total,
        });
        let evdir = root.join("evidence");
        let _ = std::fs::create_dir_all(&evdir);
        std::fs::write(
            evdir.join(format!("{}.json", self.property)),
            serde_json::to_string_pretty(&ev).unwrap(),
        )
        .expect("write evidence");
        let _ = writeln!(
            out,
            "{} {}: evaluations={} distinct_nontrivial={} states={} transitions={} violations={} (unlisted {}) wall={:.1}s",
            self.property,
            self.tier,
            self.evaluations,
            self.distinct_nontrivial,
            self.states,
            self.transitions,
            self.violations_total,
            unlisted,
            self.start.elapsed().as_secs_f64()
        );
        if unlisted > 0 {
            1
        } else {
            0
        }
    }
}

pub fn short(v: &Value) -> String {
    let s = v.to_string();
    if s.len() > 400 {
        let mut cut = 400;
        while !s.is_char_boundary(cut) {
            cut -= 1;
        }
        format!("{}…", &s[..cut])
    } else {
        s
    }
}

/// `known: property=C16 key=<key> :: free text` / `fixed: property=C16 <commit> <text>`
pub struct KnownFindings {
    known: Vec<(String, String, String)>,
}

impl KnownFindings {
    pub fn load(path: &std::path::Path) -> KnownFindings {
        let mut known = vec![];
        if let Ok(text) = std::fs::read_to_string(path) {
            for line in text.lines() {
                let line = line.trim();
                if let Some(rest) = line.strip_prefix("known:") {
                    let rest = rest.trim();
                    // property=<id> key=<key> :: text
                    let (head, text) = match rest.split_once(" :: ") {
                        Some((h, t)) => (h, t.to_string()),
                        None => (rest, String::new()),
                    };
                    if let Some(p) = head.strip_prefix("property=") {
                        if let Some((prop, key)) = p.split_once(" key=") {
                            known.push((prop.trim().to_string(), key.trim().to_string(), text));
                        }
                    }
                }
                // `fixed:` lines suppress nothing
            }
        }
        KnownFindings { known }
    }
    pub fn matches(&self, property: &str, key: &str) -> Option<String> {
        self.known
            .iter()
            .find(|(p, k, _)| p == property && k == key)
            .map(|(_, _, t)| t.clone())
    }
}

/// run a closure, turning a panic into Err(message)
pub fn catch<T, F: FnOnce() -> T + std::panic::UnwindSafe>(f: F) -> Result<T, String> {
    let prev = IN_CATCH.with(|c| c.replace(true));
    let r = std::panic::catch_unwind(f);
    IN_CATCH.with(|c| c.set(prev));
    match r {
        Ok(v) => Ok(v),
        Err(e) => {
            let msg = if let Some(s) = e.downcast_ref::<&str>() {
                s.to_string()
            } else if let Some(s) = e.downcast_ref::<String>() {
                s.clone()
            } else {
                "panic (non-string payload)".to_string()
            };
            Err(msg)
        }
    }
}

/// silence the default panic printer for caught subject panics (keeps logs readable);
/// the message is still captured by `catch` through a thread-local.
pub fn install_quiet_panic_hook() {
    let default = std::panic::take_hook();
    std::panic::set_hook(Box::new(move |info| {
        if !IN_CATCH.with(|c| c.get()) {
            // a panic of the machinery itself: show it
            default(info);
            return;
        }
        let loc = info
            .location()
            .map(|l| format!("{}:{}", l.file(), l.line()))
            .unwrap_or_default();
        LAST_PANIC_LOC.with(|c| *c.borrow_mut() = loc);
    }));
}

thread_local! {
    pub static IN_CATCH: std::cell::Cell<bool> = std::cell::Cell::new(false);
    pub static LAST_PANIC_LOC: std::cell::RefCell<String> = std::cell::RefCell::new(String::new());
}

pub fn last_panic_loc() -> String {
    LAST_PANIC_LOC.with(|c| c.borrow().clone())
}

// ---------------------------------------------------------------------------------------------
// Horizon: a case of a property that implies termination (every legal deal is yielded, a scope
// ends) registers itself while it runs; if it is still running after its horizon the monitor
// reports it as a violation ("did not return within the horizon") and ends the process with 1.
// The horizon is generous (minutes, and thousands of times the nominal cost), so load cannot
// trip it on a tree where the case takes milliseconds.

use std::collections::HashMap;
use std::sync::{Mutex, OnceLock};

struct InFlight {
    start: Instant,
    horizon: std::time::Duration,
    property: String,
    sub: String,
    key: String,
    case: Value,
}

static INFLIGHT: OnceLock<Mutex<(u64, HashMap<u64, InFlight>)>> = OnceLock::new();

pub struct HorizonGuard(u64);

impl Drop for HorizonGuard {
    fn drop(&mut self) {
        if let Some(m) = INFLIGHT.get() {
            if let Ok(mut g) = m.lock() {
                g.1.remove(&self.0);
            }
        }
    }
}

/// the reduced second pass of a slow check (./check sets VERIF_LITE=1 for the release-profile pass of the quick tier
/// of C09, C10, C11, C12, C15): every family runs, the largest ones thinned
pub fn lite() -> bool {
    std::env::var("VERIF_LITE").map(|v| v == "1").unwrap_or(false)
}

/// keep every k-th element in the lite pass, everything otherwise
pub fn thin<T>(v: Vec<T>, k: usize) -> Vec<T> {
    if lite() {
        v.into_iter().step_by(k.max(1)).collect()
    } else {
        v
    }
}

/// register a running case; `nominal_steps` is its nominal number of iterator steps
pub fn horizon(property: &str, sub: &str, key: String, case: Value, nominal_steps: u64) -> HorizonGuard {
    let m = INFLIGHT.get_or_init(|| {
        std::thread::spawn(|| loop {
            std::thread::sleep(std::time::Duration::from_millis(500));
            let m = INFLIGHT.get().unwrap();
            let late = {
                let g = m.lock().unwrap();
                g.1.values().find(|f| f.start.elapsed() > f.horizon).map(|f| (f.property.clone(), f.sub.clone(), f.key.clone(), f.case.clone(), f.horizon))
            };
            if let Some((property, sub, key, case, h)) = late {
                let root = verif_root();
                let dir = root.join("replays");
                let _ = std::fs::create_dir_all(&dir);
                let path = dir.join(format!("{}-horizon.json", property));
                let body = json!({"property": property, "sub": sub, "key": key, "case": case, "expected": "returns", "observed": format!("still running after the horizon of {} s (non-termination)", h.as_secs())});
                let _ = std::fs::write(&path, serde_json::to_string_pretty(&body).unwrap());
                println!("VIOLATION property={} replay={}", property, path.display());
                println!("  sub={} key={}", sub, key);
                println!("  observed=\"still running after the horizon of {} s: the call does not return\"", h.as_secs());
                // evidence of a run that was cut short
                let ev = json!({"property_id": property, "tier": std::env::var("VERIF_TIER").unwrap_or_else(|_| "quick".into()), "seed": 0, "level": "model_checking",
                    "coverage": {"evaluations": 1, "distinct_nontrivial": 2, "rule": "run cut short by a case that did not return within its horizon", "samples": [key], "exhaustive": false},
                    "wall_s": h.as_secs_f64(), "violations": 1});
                let _ = std::fs::create_dir_all(root.join("evidence"));
                let _ = std::fs::write(root.join("evidence").join(format!("{}.json", property)), serde_json::to_string_pretty(&ev).unwrap());
                std::process::exit(1);
            }
        });
        Mutex::new((0, HashMap::new()))
    });
    let secs = 300 + nominal_steps / 1_000; // 300 s + 1 ms per nominal step (a step costs ~0.1-0.2 us)
    let mut g = m.lock().unwrap();
    g.0 += 1;
    let id = g.0;
    g.1.insert(id, InFlight { start: Instant::now(), horizon: std::time::Duration::from_secs(secs), property: property.into(), sub: sub.into(), key, case });
    HorizonGuard(id)
}
