//! The iterators espada hands out (`vec::IntoIter` today) promise more than `next()`: they are double-ended, know
//! their exact length, can skip. Every way of consuming one must give the same items.

use std::fmt::Debug;

/// `mk` makes a fresh iterator; every consumption protocol must agree with plain forward iteration.
/// Protocols: all sequences of front/back pulls of length <= `depth` followed by draining forward, or backward;
/// len() and size_hint() before every pull; rev(); count(); last(); nth(k) and nth_back(k) for every k;
/// a clone taken mid-way. Returns a description of the first disagreement.
pub fn check<T, I, F>(mk: F, depth: usize) -> Option<String>
where
    T: PartialEq + Debug + Clone,
    I: DoubleEndedIterator<Item = T> + ExactSizeIterator,
    F: Fn() -> I,
{
    let base: Vec<T> = mk().collect();
    let n = base.len();
    if mk().len() != n {
        return Some(format!("len() = {} but next() yields {} items", mk().len(), n));
    }
    if mk().count() != n {
        return Some(format!("count() = {} but next() yields {} items", mk().count(), n));
    }
    if mk().last() != base.last().cloned() {
        return Some("last() is not the last item next() yields".into());
    }
    let mut r: Vec<T> = mk().rev().collect();
    r.reverse();
    if r != base {
        return Some(format!("rev() yields {} items that are not the forward items backwards", r.len()));
    }
    for k in 0..=n + 1 {
        let mut it = mk();
        if it.nth(k) != base.get(k).cloned() {
            return Some(format!("nth({}) is not the item at that place", k));
        }
        let rest: Vec<T> = it.collect();
        if rest[..] != base[(k + 1).min(n)..] {
            return Some(format!("after nth({}) the rest differs", k));
        }
        let mut it = mk();
        let want = if k < n { Some(base[n - 1 - k].clone()) } else { None };
        if it.nth_back(k) != want {
            return Some(format!("nth_back({}) is not the item at that place from the end", k));
        }
        let rest: Vec<T> = it.collect();
        if rest[..] != base[..n.saturating_sub(k + 1)] {
            return Some(format!("after nth_back({}) the rest differs", k));
        }
    }
    // all front/back pull sequences up to `depth`, then drain forward / backward
    for len in 1..=depth {
        for code in 0..(1u32 << len) {
            for drain_back in [false, true] {
                let mut it = mk();
                let mut front: Vec<T> = vec![];
                let mut back: Vec<T> = vec![];
                let mut pulls = String::new();
                for b in 0..len {
                    let remaining = n - front.len() - back.len();
                    let (lo, hi) = it.size_hint();
                    if it.len() != remaining || lo > remaining || hi.map(|h| h < remaining).unwrap_or(false) {
                        return Some(format!("after pulls '{}': len() = {}, size_hint() = ({}, {:?}), but {} items remain", pulls, it.len(), lo, hi, remaining));
                    }
                    if (code >> b) & 1 == 0 {
                        pulls.push('f');
                        match it.next() {
                            Some(x) => front.push(x),
                            None => {
                                if remaining != 0 {
                                    return Some(format!("pulls '{}': next() is None with {} items remaining", pulls, remaining));
                                }
                            }
                        }
                    } else {
                        pulls.push('b');
                        match it.next_back() {
                            Some(x) => back.push(x),
                            None => {
                                if remaining != 0 {
                                    return Some(format!("pulls '{}': next_back() is None with {} items remaining", pulls, remaining));
                                }
                            }
                        }
                    }
                }
                if drain_back {
                    while let Some(x) = it.next_back() {
                        back.push(x);
                    }
                } else {
                    for x in it.by_ref() {
                        front.push(x);
                    }
                }
                if it.next().is_some() || it.next_back().is_some() {
                    return Some(format!("pulls '{}' then drained: the iterator yields again", pulls));
                }
                back.reverse();
                front.extend(back);
                if front != base {
                    return Some(format!("pulls '{}' (f = next, b = next_back) then drained {}: {} items, not the {} items of plain forward iteration in order", pulls, if drain_back { "backward" } else { "forward" }, front.len(), n));
                }
            }
        }
    }
    None
}
