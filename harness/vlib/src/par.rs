//! Deterministic parallel map: work items are claimed from an atomic counter by worker
//! threads with large stacks, results are returned in item order.

use std::sync::atomic::{AtomicUsize, Ordering};
use std::sync::Mutex;

pub fn n_threads() -> usize {
    std::env::var("VERIF_THREADS")
        .ok()
        .and_then(|s| s.parse().ok())
        .unwrap_or_else(|| std::thread::available_parallelism().map(|n| n.get()).unwrap_or(4))
}

/// 1 GiB stacks so that deep recursion in the subject can only ever be reported by C08
pub const BIG_STACK: usize = 1 << 30;

pub fn par_map<T: Send, F: Fn(usize) -> T + Sync>(n_items: usize, f: F) -> Vec<T> {
    let next = AtomicUsize::new(0);
    let out: Mutex<Vec<Option<T>>> = Mutex::new((0..n_items).map(|_| None).collect());
    let nt = n_threads().min(n_items.max(1));
    std::thread::scope(|s| {
        for _ in 0..nt {
            std::thread::Builder::new()
                .stack_size(BIG_STACK)
                .spawn_scoped(s, || loop {
                    let i = next.fetch_add(1, Ordering::Relaxed);
                    if i >= n_items {
                        break;
                    }
                    let r = f(i);
                    out.lock().unwrap()[i] = Some(r);
                })
                .expect("spawn worker");
        }
    });
    out.into_inner()
        .unwrap()
        .into_iter()
        .map(|o| o.expect("worker result"))
        .collect()
}

/// run one closure on a big-stack thread and return its value
pub fn on_big_stack<T: Send, F: FnOnce() -> T + Send>(f: F) -> T {
    std::thread::scope(|s| {
        std::thread::Builder::new()
            .stack_size(BIG_STACK)
            .spawn_scoped(s, f)
            .expect("spawn")
            .join()
            .expect("big-stack thread panicked")
    })
}
