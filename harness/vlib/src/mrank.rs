//! M-rank: poker hand strength written from the rules only (no reference to espada's
//! tables). All C(52,5) five-card hands are classified into (category, tie-break ranks),
//! the distinct keys are sorted strongest first and numbered 1..=7462. The strength class of
//! seven cards is the minimum over their 21 five-card subsets.

pub const CATEGORY_NAMES: [&str; 9] = [
    "HighCard",
    "Pair",
    "TwoPair",
    "Trips",
    "Straight",
    "Flush",
    "FullHouse",
    "Quads",
    "StraightFlush",
];

/// score of five cards: larger = stronger. cards are indexes rank_code*4+suit (0 = ace).
pub fn score5(cards: &[u8; 5]) -> u32 {
    // strength value of a rank: deuce = 0 .. ace = 12
    let mut cnt = [0u8; 13];
    for &c in cards {
        cnt[12 - (c >> 2) as usize] += 1;
    }
    let flush = cards.iter().all(|&c| c & 3 == cards[0] & 3);
    // groups sorted by (count desc, strength desc)
    let mut groups: Vec<(u8, u8)> = (0..13u8)
        .filter(|&v| cnt[v as usize] > 0)
        .map(|v| (cnt[v as usize], v))
        .collect();
    groups.sort_by(|a, b| b.cmp(a));
    let distinct = groups.len();
    // straight: five distinct ranks, consecutive, or the wheel A-5-4-3-2
    let mut straight_high: Option<u8> = None;
    if distinct == 5 {
        let hi = groups[0].1;
        let lo = groups[4].1;
        if hi - lo == 4 {
            straight_high = Some(hi);
        } else if hi == 12 && groups[1].1 == 3 && lo == 0 {
            straight_high = Some(3); // five-high
        }
    }
    let (cat, tb): (u32, Vec<u8>) = if let (Some(h), true) = (straight_high, flush) {
        (8, vec![h])
    } else if groups[0].0 == 4 {
        (7, vec![groups[0].1, groups[1].1])
    } else if groups[0].0 == 3 && groups[1].0 == 2 {
        (6, vec![groups[0].1, groups[1].1])
    } else if flush {
        (5, groups.iter().map(|g| g.1).collect())
    } else if let Some(h) = straight_high {
        (4, vec![h])
    } else if groups[0].0 == 3 {
        (3, groups.iter().map(|g| g.1).collect())
    } else if groups[0].0 == 2 && groups[1].0 == 2 {
        (2, groups.iter().map(|g| g.1).collect())
    } else if groups[0].0 == 2 {
        (1, groups.iter().map(|g| g.1).collect())
    } else {
        (0, groups.iter().map(|g| g.1).collect())
    };
    let mut s = cat << 20;
    for (i, v) in tb.iter().enumerate() {
        s |= (*v as u32) << (16 - 4 * i as u32);
    }
    s
}

#[inline]
fn tuple_index(r: &[u8; 5]) -> usize {
    ((((r[0] as usize * 13) + r[1] as usize) * 13 + r[2] as usize) * 13 + r[3] as usize) * 13
        + r[4] as usize
}

pub struct MRank {
    /// class by sorted rank-code tuple, five cards of one suit
    flush_tbl: Vec<u16>,
    /// class by sorted rank-code tuple, not all one suit
    plain_tbl: Vec<u16>,
    /// category (0..9, index into CATEGORY_NAMES) of class k (1-based)
    pub class_category: Vec<u8>,
    pub n_classes: usize,
    pub class_counts: [u32; 9],
    pub hand_counts: [u64; 9],
}

impl MRank {
    /// build from the rules and self-check against the well-known combinatorics
    pub fn build() -> MRank {
        let mut scores: Vec<u32> = Vec::with_capacity(2_598_960);
        let mut hand_counts = [0u64; 9];
        let mut c = [0u8; 5];
        for a in 0..52u8 {
            for b in (a + 1)..52 {
                for d in (b + 1)..52 {
                    for e in (d + 1)..52 {
                        for f in (e + 1)..52 {
                            c = [a, b, d, e, f];
                            let s = score5(&c);
                            hand_counts[(s >> 20) as usize] += 1;
                            scores.push(s);
                        }
                    }
                }
            }
        }
        let _ = c;
        assert_eq!(scores.len(), 2_598_960);
        let mut distinct = scores.clone();
        distinct.sort_unstable_by(|a, b| b.cmp(a));
        distinct.dedup();
        let n_classes = distinct.len();
        assert_eq!(n_classes, 7462, "M-rank self-check: number of classes");
        let mut class_counts = [0u32; 9];
        let mut class_category = vec![0u8; n_classes + 1];
        for (i, s) in distinct.iter().enumerate() {
            class_counts[(s >> 20) as usize] += 1;
            class_category[i + 1] = (s >> 20) as u8;
        }
        // HighCard, Pair, TwoPair, Trips, Straight, Flush, FullHouse, Quads, StraightFlush
        assert_eq!(
            class_counts,
            [1277, 2860, 858, 858, 10, 1277, 156, 156, 10],
            "M-rank self-check: classes per category"
        );
        assert_eq!(
            hand_counts,
            [1302540, 1098240, 123552, 54912, 10200, 5108, 3744, 624, 40],
            "M-rank self-check: hands per category"
        );
        // tables
        let mut flush_tbl = vec![0u16; 13usize.pow(5)];
        let mut plain_tbl = vec![0u16; 13usize.pow(5)];
        let mut k = 0usize;
        for a in 0..52u8 {
            for b in (a + 1)..52 {
                for d in (b + 1)..52 {
                    for e in (d + 1)..52 {
                        for f in (e + 1)..52 {
                            let s = scores[k];
                            k += 1;
                            let class = (distinct.binary_search_by(|p| s.cmp(p)).unwrap() + 1) as u16;
                            let ranks = [a >> 2, b >> 2, d >> 2, e >> 2, f >> 2];
                            let flush = [b, d, e, f].iter().all(|x| x & 3 == a & 3);
                            let t = if flush { &mut flush_tbl } else { &mut plain_tbl };
                            let i = tuple_index(&ranks);
                            if t[i] == 0 {
                                t[i] = class;
                            } else {
                                assert_eq!(t[i], class, "M-rank: class must depend on ranks+flush only");
                            }
                        }
                    }
                }
            }
        }
        MRank {
            flush_tbl,
            plain_tbl,
            class_category,
            n_classes,
            class_counts,
            hand_counts,
        }
    }

    /// class of five cards given in ascending index order
    #[inline]
    pub fn class5_sorted(&self, c: &[u8; 5]) -> u16 {
        let ranks = [c[0] >> 2, c[1] >> 2, c[2] >> 2, c[3] >> 2, c[4] >> 2];
        let s = c[0] & 3;
        let flush = (c[1] & 3 == s) & (c[2] & 3 == s) & (c[3] & 3 == s) & (c[4] & 3 == s);
        let i = tuple_index(&ranks);
        if flush {
            self.flush_tbl[i]
        } else {
            self.plain_tbl[i]
        }
    }

    /// class of seven cards given in ascending index order: best of the 21 subsets
    #[inline]
    pub fn class7_sorted(&self, c: &[u8; 7]) -> u16 {
        let mut best = u16::MAX;
        for i in 0..7 {
            for j in (i + 1)..7 {
                let mut f = [0u8; 5];
                let mut k = 0;
                for m in 0..7 {
                    if m != i && m != j {
                        f[k] = c[m];
                        k += 1;
                    }
                }
                let v = self.class5_sorted(&f);
                if v < best {
                    best = v;
                }
            }
        }
        best
    }

    /// class of seven cards in any order
    pub fn class7(&self, c: &[u8; 7]) -> u16 {
        let mut s = *c;
        s.sort_unstable();
        self.class7_sorted(&s)
    }

    pub fn category_of_class(&self, class: u16) -> usize {
        self.class_category[class as usize] as usize
    }
}

/// the published seven-card category histogram, HighCard..StraightFlush
pub const SEVEN_CARD_HISTOGRAM: [u64; 9] = [
    23_294_460,
    58_627_800,
    31_433_400,
    6_461_620,
    6_180_020,
    4_047_644,
    3_473_184,
    224_848,
    41_584,
];
