//! Actors for C15: small programs over espada's API whose observation sequences must be the
//! same whether they run alone, interleaved call by call, or on different threads.

use crate::cards::*;
use crate::deals::{Config, Iter};
use espada::hand_range::HandRange;

#[derive(Clone, Debug)]
pub enum Spec {
    /// new() + scope(), then into_iter() (two operations: the evaluator can change threads or wait in between), then
    /// next() until None plus `extra` more calls. A configuration whose label starts with "shared " takes its ranges
    /// from ONE Vec<HandRange> per execution, shared with every other actor of the group that has the same ranges
    Eval { cfg: Config, scope: (u8, u8, u8, u8), extra: usize },
    /// construct, take `take` showdowns, then abandon the iterator (it is dropped mid-enumeration)
    Abandon { cfg: Config, scope: (u8, u8, u8, u8), take: usize },
    /// parse -> to_string -> rank_pairs -> orphan_card_pairs
    Parser { text: String },
    /// misuse that fails: an evaluator whose board already holds a turn card; building the iterator
    /// panics (before and after any change) - what matters is that nobody else notices
    BadBoard { cards: Vec<u8> },
    /// a solver's outer loop: for each configuration in turn build an evaluator, take `take` showdowns, and
    /// drop it; one operation per configuration (many short-lived evaluators beside a long-lived one)
    Churn { cfgs: Vec<Config>, take: usize },
    /// the caller looking at its own ranges (the ranges of `cfg`, shared with the evaluator actors of the group that
    /// were built from them): text, rank pairs, leftovers, combos - four operations
    Observer { cfg: Config },
    /// like Eval without extra calls, but the iterator is DROPPED by an operation of its own after the first None (so
    /// that "drained but still alive" and "dropped" are two states other actors can be scheduled between)
    EvalDrop { cfg: Config, scope: (u8, u8, u8, u8) },
}

/// Moves a value to another thread even if its type does not (or no longer does) implement Send. Whether the
/// public types ARE Send + Sync is decided by the compile-time probe crate `sendsync` alone; the explorers must
/// keep compiling when that probe fails, so that the other checks still run. Values are only ever used by one
/// thread at a time here.
pub struct ForceSend<T>(pub T);
unsafe impl<T> Send for ForceSend<T> {}
unsafe impl<T> Sync for ForceSend<T> {}

pub enum State {
    EvalFresh,
    EvalBuilt(espada::evaluator::FlopExhaustiveEvaluator),
    EvalRunning(Iter),
    ParserFresh,
    ParserHas(HandRange, usize),
    ChurnAt(usize),
    ObserverAt(usize),
    Gone,
}

pub struct Actor {
    pub spec: Spec,
    pub state: State,
    pub done_nones: usize,
    /// the caller's ranges, when several actors are built from the same Vec<HandRange>
    pub shared: Option<std::sync::Arc<Vec<HandRange>>>,
}

pub fn showdown_sig(sd: &espada::evaluator::Showdown) -> String {
    let b: Vec<String> = sd.board().iter().map(|c| card_text(idx_of(c))).collect();
    let ps: Vec<String> = sd
        .players()
        .iter()
        .map(|p| format!("{}{}{}", p.hole_cards(), if p.is_winner() { "*" } else { "" }, p.hand().power_index()))
        .collect();
    format!("{} | {} | p={:08x} w={}", b.join(""), ps.join(","), sd.probability().to_bits(), sd.winner_len())
}

impl Actor {
    pub fn new(spec: &Spec) -> Actor {
        let state = match spec {
            Spec::Eval { .. } => State::EvalFresh,
            Spec::EvalDrop { .. } => State::EvalFresh,
            Spec::Abandon { .. } => State::EvalFresh,
            Spec::Parser { .. } => State::ParserFresh,
            Spec::BadBoard { .. } => State::ParserFresh,
            Spec::Churn { .. } => State::ChurnAt(0),
            Spec::Observer { .. } => State::ObserverAt(0),
        };
        Actor { spec: spec.clone(), state, done_nones: 0, shared: None }
    }

    /// the actors of one execution; evaluator actors whose configuration is labelled "shared ..." and whose ranges
    /// are the same are all built from one and the same Vec<HandRange> (the caller keeps its ranges and builds
    /// several evaluators from them, as the multi-thread example does)
    pub fn new_group(specs: &[Spec]) -> Vec<Actor> {
        let mut pool: Vec<(String, std::sync::Arc<Vec<HandRange>>)> = vec![];
        specs
            .iter()
            .map(|sp| {
                let mut a = Actor::new(sp);
                if let Spec::Eval { cfg, .. } | Spec::Abandon { cfg, .. } | Spec::Observer { cfg } | Spec::EvalDrop { cfg, .. } = sp {
                    if cfg.label.starts_with("shared ") {
                        let key = format!("{:?}", cfg.ranges);
                        let arc = match pool.iter().find(|(k, _)| *k == key) {
                            Some((_, a)) => a.clone(),
                            None => {
                                let a = std::sync::Arc::new(cfg.hand_ranges());
                                pool.push((key, a.clone()));
                                a
                            }
                        };
                        a.shared = Some(arc);
                    }
                }
                a
            })
            .collect()
    }

    /// perform the next operation and return what was observed
    pub fn step(&mut self) -> String {
        let st = std::mem::replace(&mut self.state, State::EvalFresh);
        match (st, &self.spec) {
            (State::EvalFresh, Spec::Eval { cfg, scope, .. }) | (State::EvalFresh, Spec::Abandon { cfg, scope, .. }) | (State::EvalFresh, Spec::EvalDrop { cfg, scope }) => {
                let mut ev = match &self.shared {
                    Some(r) => espada::evaluator::FlopExhaustiveEvaluator::new(&board_opt(&cfg.flop), r),
                    None => cfg.evaluator(),
                };
                ev.scope(scope.0, scope.1, scope.2, scope.3);
                self.state = State::EvalBuilt(ev);
                "new".to_string()
            }
            (State::EvalBuilt(ev), _) => {
                self.state = State::EvalRunning(ev.into_iter());
                "iterating".to_string()
            }
            (State::EvalRunning(it), Spec::EvalDrop { .. }) if self.done_nones >= 1 => {
                drop(it);
                self.state = State::Gone;
                "dropped".to_string()
            }
            (State::EvalRunning(mut it), _) => {
                let o = match it.next() {
                    Some(sd) => showdown_sig(&sd),
                    None => {
                        self.done_nones += 1;
                        "None".to_string()
                    }
                };
                self.state = State::EvalRunning(it);
                o
            }
            (State::ParserFresh, Spec::BadBoard { cards }) => {
                let cards = cards.clone();
                let r = crate::report::catch(move || {
                    let mut b = [None; 5];
                    for (i, c) in cards.iter().enumerate().take(5) {
                        b[i] = Some(card(*c));
                    }
                    let range: HandRange = "AsKs".parse().unwrap();
                    let ev = espada::evaluator::FlopExhaustiveEvaluator::new(&b, &vec![range]);
                    ev.into_iter().next().is_some()
                });
                self.state = State::ParserFresh;
                match r {
                    Ok(x) => format!("bad board accepted, first next() is_some = {}", x),
                    Err(_) => "bad board refused by a panic".to_string(),
                }
            }
            (State::ParserFresh, Spec::Parser { text }) => {
                let r: HandRange = text.parse().unwrap();
                let n = r.card_pairs().len();
                self.state = State::ParserHas(r, 0);
                format!("parsed {} combos", n)
            }
            (State::ParserHas(r, k), _) => {
                let o = match k {
                    0 => r.to_string(),
                    1 => {
                        let mut v: Vec<String> = r.rank_pairs().iter().map(|(k, w)| format!("{}:{}", k, w)).collect();
                        v.sort();
                        v.join(",")
                    }
                    _ => {
                        let mut v: Vec<String> = r.orphan_card_pairs().iter().map(|(k, w)| format!("{}:{}", k, w)).collect();
                        v.sort();
                        v.join(",")
                    }
                };
                self.state = State::ParserHas(r, k + 1);
                o
            }
            (State::ChurnAt(k), Spec::Churn { cfgs, take }) => {
                let cfg = &cfgs[k % cfgs.len()];
                let mut out = vec![];
                {
                    let mut it = cfg.evaluator().into_iter();
                    for _ in 0..*take {
                        match it.next() {
                            Some(sd) => out.push(showdown_sig(&sd)),
                            None => out.push("None".to_string()),
                        }
                    }
                    // `it` is dropped here, in the middle of its enumeration
                }
                self.state = State::ChurnAt(k + 1);
                out.join(" ; ")
            }
            (State::ObserverAt(k), Spec::Observer { cfg }) => {
                let own;
                let ranges: &Vec<HandRange> = match &self.shared {
                    Some(r) => r,
                    None => {
                        own = cfg.hand_ranges();
                        &own
                    }
                };
                let o = match k % 4 {
                    0 | 3 => ranges.iter().map(|r| r.to_string()).collect::<Vec<_>>().join(" / "),
                    1 => ranges
                        .iter()
                        .map(|r| {
                            let mut v: Vec<String> = r.rank_pairs().iter().map(|(k, w)| format!("{}:{}", k, w)).collect();
                            v.sort();
                            let mut o: Vec<String> = r.orphan_card_pairs().iter().map(|(k, w)| format!("{}:{}", k, w)).collect();
                            o.sort();
                            format!("{} + {}", v.join(","), o.join(","))
                        })
                        .collect::<Vec<_>>()
                        .join(" / "),
                    _ => ranges
                        .iter()
                        .map(|r| {
                            let mut v: Vec<String> = r.into_iter().map(|(k, w)| format!("{}:{}", k, w)).collect();
                            v.sort();
                            format!("{} combos {}", r.card_pairs().len(), v.join(","))
                        })
                        .collect::<Vec<_>>()
                        .join(" / "),
                };
                self.state = State::ObserverAt(k + 1);
                o
            }
            _ => unreachable!("actor state does not match its spec"),
        }
    }
}

/// run an actor alone until its program ends; the program length is derived from this run
pub fn solo(spec: &Spec) -> Vec<String> {
    let mut a = Actor::new(spec);
    let mut out = vec![];
    match spec {
        Spec::Eval { extra, .. } => {
            out.push(a.step());
            out.push(a.step());
            loop {
                let o = a.step();
                let none = o == "None";
                out.push(o);
                if none {
                    break;
                }
                assert!(out.len() < 10_000, "solo run does not end");
            }
            for _ in 0..*extra {
                out.push(a.step());
            }
        }
        Spec::Abandon { take, .. } => {
            out.push(a.step());
            out.push(a.step());
            for _ in 0..*take {
                out.push(a.step());
            }
            // `a` is dropped here, in the middle of its enumeration
        }
        Spec::Parser { .. } => {
            for _ in 0..4 {
                out.push(a.step());
            }
        }
        Spec::BadBoard { .. } => {
            out.push(a.step());
        }
        Spec::Churn { cfgs, .. } => {
            for _ in 0..cfgs.len() {
                out.push(a.step());
            }
        }
        Spec::Observer { .. } => {
            for _ in 0..4 {
                out.push(a.step());
            }
        }
        Spec::EvalDrop { .. } => {
            out.push(a.step());
            out.push(a.step());
            loop {
                let o = a.step();
                let none = o == "None";
                out.push(o);
                if none {
                    break;
                }
                assert!(out.len() < 10_000, "solo run does not end");
            }
            out.push(a.step());
        }
    }
    out
}

fn c(t: &str) -> u8 {
    let b = t.as_bytes();
    (RANK_CHARS.iter().position(|x| *x == b[0] as char).unwrap() * 4 + SUIT_CHARS.iter().position(|x| *x == b[1] as char).unwrap()) as u8
}

pub fn eval_spec(flop: [&str; 3], ranges: &[&[(&str, f32)]], scope: (u8, u8, u8, u8), extra: usize) -> Spec {
    let rs: Vec<Vec<(Combo, f32)>> = ranges.iter().map(|r| r.iter().map(|(t, w)| (Combo::new(c(&t[0..2]), c(&t[2..4])), *w)).collect()).collect();
    let label = Config::describe_ranges(&rs);
    Spec::Eval { cfg: Config { flop: [c(flop[0]), c(flop[1]), c(flop[2])], ranges: rs, label }, scope, extra }
}

/// mark a configuration as built from the caller's shared Vec<HandRange> (see Actor::new_group)
pub fn shared(spec: Spec) -> Spec {
    match spec {
        Spec::Eval { mut cfg, scope, extra } => {
            cfg.label = format!("shared {}", cfg.label);
            Spec::Eval { cfg, scope, extra }
        }
        o => o,
    }
}

/// the caller's view of the (shared) ranges of an evaluator actor
pub fn observer_of(spec: Spec) -> Spec {
    match spec {
        Spec::Eval { cfg, .. } => Spec::Observer { cfg },
        o => o,
    }
}

/// the same evaluator program ending with an explicit drop of the iterator
pub fn drop_spec(spec: Spec) -> Spec {
    match spec {
        Spec::Eval { cfg, scope, .. } => Spec::EvalDrop { cfg, scope },
        o => o,
    }
}

pub fn abandon_spec(flop: [&str; 3], ranges: &[&[(&str, f32)]], scope: (u8, u8, u8, u8), take: usize) -> Spec {
    match eval_spec(flop, ranges, scope, 0) {
        Spec::Eval { cfg, scope, .. } => Spec::Abandon { cfg, scope, take },
        o => o,
    }
}

/// `n` configurations on `n` distinct flops (the first n of: three consecutive cards of the deck order starting
/// at card 3k, none of which is in the ranges used here), same ranges
pub fn churn_spec(n: usize, ranges: &[&[(&str, f32)]], take: usize) -> Spec {
    let rs: Vec<Vec<(Combo, f32)>> = ranges.iter().map(|r| r.iter().map(|(t, w)| (Combo::new(c(&t[0..2]), c(&t[2..4])), *w)).collect()).collect();
    let used: Vec<u8> = rs.iter().flatten().flat_map(|(cb, _)| [cb.0, cb.1]).collect();
    let free: Vec<u8> = (0..52u8).filter(|x| !used.contains(x)).collect();
    let mut cfgs = vec![];
    for k in 0..n {
        // flops {free[k], free[k+1], free[k+17]}: pairwise distinct sets
        let flop = [free[k], free[k + 1], free[(k + 17) % free.len()]];
        cfgs.push(Config { flop, ranges: rs.clone(), label: Config::describe_ranges(&rs) });
    }
    Spec::Churn { cfgs, take }
}

/// like churn_spec but with up to 17,296 distinct flops (every `stride`-th 3-subset, in lexicographic order, of the
/// cards the ranges do not use)
pub fn churn_spec_many(n: usize, stride: usize, ranges: &[&[(&str, f32)]], take: usize) -> Spec {
    let rs: Vec<Vec<(Combo, f32)>> = ranges.iter().map(|r| r.iter().map(|(t, w)| (Combo::new(c(&t[0..2]), c(&t[2..4])), *w)).collect()).collect();
    let used: Vec<u8> = rs.iter().flatten().flat_map(|(cb, _)| [cb.0, cb.1]).collect();
    let free: Vec<u8> = (0..52u8).filter(|x| !used.contains(x)).collect();
    let mut cfgs = vec![];
    let mut count = 0usize;
    'outer: for a in 0..free.len() {
        for b in (a + 1)..free.len() {
            for d in (b + 1)..free.len() {
                count += 1;
                if count % stride != 0 {
                    continue;
                }
                cfgs.push(Config { flop: [free[a], free[b], free[d]], ranges: rs.clone(), label: Config::describe_ranges(&rs) });
                if cfgs.len() == n {
                    break 'outer;
                }
            }
        }
    }
    Spec::Churn { cfgs, take }
}

pub fn describe(spec: &Spec) -> String {
    match spec {
        Spec::Eval { cfg, scope, .. } => format!("eval[{} scope={:?}]", cfg.key(), scope),
        Spec::Abandon { cfg, scope, take } => format!("abandon-after-{}[{} scope={:?}]", take, cfg.key(), scope),
        Spec::Parser { text } => format!("parser[{}]", text),
        Spec::BadBoard { cards } => format!("bad-board[{}]", cards_text(cards)),
        Spec::EvalDrop { cfg, scope } => format!("eval-then-drop[{} scope={:?}]", cfg.key(), scope),
        Spec::Observer { cfg } => format!("observer of the caller's ranges [{}]", cfg.label),
        Spec::Churn { cfgs, take } => format!("churn[{} evaluators on flops {}.., {} showdowns each, then dropped]", cfgs.len(), cfgs.iter().take(3).map(|c| cards_text(&c.flop)).collect::<Vec<_>>().join("/"), take),
    }
}

/// a long-lived evaluator and a solver loop over `n` distinct flops (see the long-churn sub-check of C15)
pub fn long_churn_specs(n: usize) -> Vec<Spec> {
    let r4: &[(&str, f32)] = &[("7s7h", 1.0)];
    let r5: &[(&str, f32)] = &[("QcQd", 0.5), ("5d5h", 1.0)];
    let r6: &[(&str, f32)] = &[("JdTh", 1.0), ("9c9d", 0.5)];
    vec![eval_spec(["Qs", "8d", "2h"], &[r4, r5], (0, 1, 0, 5), 1), churn_spec_many(n, 7, &[r6], 2)]
}

/// actor groups that are forced to collide
pub fn groups() -> Vec<(&'static str, Vec<Spec>)> {
    let f1 = ["Qs", "8d", "2h"];
    let f2 = ["As", "Ah", "Ad"];
    let r1: &[(&str, f32)] = &[("AcKs", 1.0)];
    let r2: &[(&str, f32)] = &[("KhKd", 0.5)];
    let r3: &[(&str, f32)] = &[("AcKs", 0.5), ("KsQd", 1.0)];
    let r4: &[(&str, f32)] = &[("7s7h", 1.0)];
    let r5: &[(&str, f32)] = &[("QcQd", 0.5), ("5d5h", 1.0)];
    let r6: &[(&str, f32)] = &[("JdTh", 1.0), ("9c9d", 0.5)];
    let r7: &[(&str, f32)] = &[("JdTh", 1.0), ("9c9d", 0.5), ("7s6s", 0.25), ("5h5d", 1.0)];
    let r8: &[(&str, f32)] = &[("QcJc", 1.0), ("4s4h", 0.5)];
    let r9: &[(&str, f32)] = &[("AsKs", 0.5), ("QdJd", 1.0)];
    let r7r: &[(&str, f32)] = &[("5h5d", 1.0), ("7s6s", 0.25), ("9c9d", 0.5), ("JdTh", 1.0)];
    let r5r: &[(&str, f32)] = &[("5d5h", 1.0), ("QcQd", 0.5)];
    vec![
        // identical flop, ranges and scope: 1 + 5 showdowns + None + 2 extra = 9 operations each
        ("identical", vec![eval_spec(f1, &[r1, r2], (0, 1, 0, 6), 2), eval_spec(f1, &[r1, r2], (0, 1, 0, 6), 2)]),
        // same flop, different ranges
        ("same-flop-other-ranges", vec![eval_spec(f1, &[r1, r2], (0, 1, 0, 6), 2), eval_spec(f1, &[r3], (0, 1, 0, 4), 2)]),
        // different flop, same ranges
        ("other-flop-same-ranges", vec![eval_spec(f1, &[r1, r2], (0, 1, 0, 6), 2), eval_spec(f2, &[r1, r2], (0, 1, 0, 6), 2)]),
        // overlapping scopes over the same configuration
        ("overlapping-scopes", vec![eval_spec(f1, &[r1, r2], (0, 3, 0, 8), 2), eval_spec(f1, &[r1, r2], (0, 5, 0, 10), 2)]),
        // an evaluator beside the parser / formatter
        ("eval-and-parser", vec![eval_spec(f1, &[r1, r2], (0, 1, 0, 6), 2), Spec::Parser { text: "QQ+,AKs:0.5,AsKd".into() }]),
        ("two-parsers-and-eval", vec![Spec::Parser { text: "AKs:0.5,QQ".into() }, Spec::Parser { text: "AKs:0.5,QQ".into() }, eval_spec(f1, &[r1], (0, 1, 0, 2), 0)]),
        // flops that differ in one low card only, same ranges, same scope: the turn/river cards and the hole
        // cards coincide call by call, only the flop differs
        ("near-flops", vec![eval_spec(["Ah", "Kd", "5c"], &[r4, r5], (0, 1, 0, 4), 1), eval_spec(["Ah", "Kd", "2s"], &[r4, r5], (0, 1, 0, 4), 1)]),
        // ... and scoped to the part of the line where their two decks differ (5c / 2s)
        ("near-flops-tail", vec![eval_spec(["Ah", "Kd", "5c"], &[r4], (37, 38, 37, 41), 1), eval_spec(["Ah", "Kd", "2s"], &[r4], (37, 38, 37, 41), 1), eval_spec(["Ah", "Kd", "2s"], &[r4], (44, 45, 44, 48), 1)]),
        ("near-flops-suit", vec![eval_spec(["As", "Ks", "Qs"], &[r6], (0, 1, 0, 5), 1), eval_spec(["As", "Ks", "Js"], &[r6], (0, 1, 0, 5), 1), eval_spec(["As", "Ks", "Jh"], &[r6], (0, 1, 0, 5), 1)]),
        // parsers / formatters on texts that nearly collide: same token heads with other weights, same sizes with other ranks
        ("near-texts", vec![Spec::Parser { text: "AKs:0.5,QQ".into() }, Spec::Parser { text: "AKs:0.25,QQ".into() }, Spec::Parser { text: "AQs:0.5,JJ".into() }]),
        // the same rank pair spelled high-first and kicker-first, suited and offsuit: whatever is expanded first
        // in the process must not decide what the others expand to
        ("spellings-1", vec![Spec::Parser { text: "AKo".into() }, Spec::Parser { text: "KAs:0.5".into() }]),
        ("spellings-2", vec![Spec::Parser { text: "Q9s".into() }, Spec::Parser { text: "9Qo:0.25".into() }, Spec::Parser { text: "9Qs".into() }]),
        // an evaluator that fails (board with four cards) beside sound ones: its failure must stay its own
        ("after-a-failure", vec![Spec::BadBoard { cards: vec![8, 26, 49, 3] }, eval_spec(f1, &[r1], (0, 1, 0, 3), 1), eval_spec(f2, &[r1], (0, 1, 0, 3), 1)]),
        // same flop, same number of players, same scope - only the ranges differ (a cache recognising a job by anything
        // but its contents hands the second one the first one's ranges)
        ("same-flop-same-count", vec![eval_spec(f1, &[r1, r2], (0, 1, 0, 6), 1), eval_spec(f1, &[r3, r2], (0, 1, 0, 6), 1), eval_spec(f1, &[r2, r1], (0, 1, 0, 6), 1)]),
        // three players per evaluator with overlapping ranges (code paths that only exist for 3+ players)
        ("three-players", vec![eval_spec(f1, &[r1, r3, r2], (0, 1, 0, 4), 1), eval_spec(f1, &[r1, r3, r2], (0, 1, 0, 4), 1)]),
        // an evaluator abandoned in the middle of a deal (dropped with a non-zero odometer), then others built after it
        ("after-an-abandoned-one", vec![abandon_spec(f1, &[r7, r7], (0, 1, 0, 3), 3), eval_spec(f1, &[r7, r8], (0, 1, 0, 3), 1), eval_spec(f2, &[r8], (0, 1, 0, 3), 1)]),
        // ranges that are EQUAL (same combos, same weights) but were collected in another order: each evaluator
        // enumerates in its own range's order; recognising "the same players" by == must not hand one the other's
        ("equal-ranges-other-order", vec![eval_spec(f1, &[r7, r5], (0, 1, 0, 2), 1), eval_spec(f1, &[r7r, r5r], (0, 1, 0, 2), 1)]),
        // a long-lived evaluator beside a solver loop that builds, uses and drops an evaluator on each of 20 other
        // flops (tables of per-board or per-job state with a capacity, eviction or compaction)
        ("long-lived-beside-churn", vec![eval_spec(f1, &[r4, r5], (0, 1, 0, 5), 1), churn_spec(20, &[r6], 2)]),
        // the caller keeps ONE Vec<HandRange> and builds evaluators on different flops from it (one flop holds a card
        // of a combo in the range; the scope lies where neither deck blocks any combo): what an evaluator does to
        // "its" ranges must not reach the caller's or a sibling's
        ("shared-ranges-other-flops", vec![shared(eval_spec(["As", "2d", "3c"], &[r9, r8], (30, 31, 30, 33), 1)), shared(eval_spec(["Th", "9h", "2s"], &[r9, r8], (30, 31, 30, 33), 1))]),
        // ... and the caller itself keeps looking at those ranges (text, rank pairs, leftovers, combos) while the evaluators
        // built from them run
        ("shared-ranges-observed", vec![shared(eval_spec(["As", "2d", "3c"], &[r9, r8], (30, 31, 30, 32), 0)), observer_of(shared(eval_spec(["As", "2d", "3c"], &[r9, r8], (30, 31, 30, 32), 0))), shared(eval_spec(["Th", "9h", "2s"], &[r9, r8], (30, 31, 30, 32), 0))]),
        // an evaluator that is drained, stays alive for a while and is then dropped (an operation of its own), while two
        // others with multi-combo ranges are created and advanced around those two moments (resources handed back at
        // exhaustion AND at drop)
        ("drained-then-dropped", vec![drop_spec(eval_spec(f1, &[r3, r5], (0, 1, 0, 2), 0)), eval_spec(f1, &[r3, r5], (0, 1, 0, 2), 0), eval_spec(f1, &[r5, r3], (0, 1, 0, 2), 0)]),
        // three evaluators, 6 operations each
        ("three-evaluators", vec![eval_spec(f1, &[r1], (0, 1, 0, 4), 1), eval_spec(f1, &[r1], (0, 1, 0, 4), 1), eval_spec(f2, &[r3], (47, 48, 48, 49), 3)]),
        // four evaluators, 3-4 operations each
        ("four-evaluators", vec![eval_spec(f1, &[r1], (0, 1, 0, 2), 0), eval_spec(f1, &[r1], (0, 1, 0, 2), 0), eval_spec(f2, &[r1], (0, 1, 0, 2), 0), eval_spec(f1, &[r2], (47, 48, 48, 49), 0)]),
    ]
}
