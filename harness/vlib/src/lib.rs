pub mod actors;
pub mod cards;
pub mod deals;
pub mod iterproto;
pub mod mrank;
pub mod notation;
pub mod par;
pub mod report;
