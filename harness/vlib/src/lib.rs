pub mod cards;
pub mod mrank;
pub mod par;
pub mod report;
