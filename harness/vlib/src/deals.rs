//! M-deals: the reference enumerator of legal deals, and the driver that takes every
//! `next()` transition of the real iterator and records what it yields.

use crate::cards::*;
use crate::report::catch;
use espada::card::Card;
use espada::evaluator::{FlopExhaustiveEvaluator, Showdown};
use espada::hand_range::HandRange;
use serde_json::{json, Value};

pub type Iter = <FlopExhaustiveEvaluator as IntoIterator>::IntoIter;

#[derive(Clone, Debug)]
pub struct Config {
    /// flop in the order it is handed to the evaluator
    pub flop: [u8; 3],
    /// per player: combos with weights (no duplicates inside one range)
    pub ranges: Vec<Vec<(Combo, f32)>>,
    /// short human description of the ranges (used in finding keys)
    pub label: String,
}

impl Config {
    pub fn hand_ranges(&self) -> Vec<HandRange> {
        self.ranges
            .iter()
            .map(|r| r.iter().map(|(c, w)| (c.card_pair(), *w)).collect::<HandRange>())
            .collect()
    }
    pub fn evaluator(&self) -> FlopExhaustiveEvaluator {
        FlopExhaustiveEvaluator::new(&board_opt(&self.flop), &self.hand_ranges())
    }
    pub fn key(&self) -> String {
        format!("flop={} ranges={}", cards_text(&self.flop), self.label)
    }
    pub fn to_json(&self) -> Value {
        json!({
            "flop": self.flop.to_vec(),
            "flop_text": cards_text(&self.flop),
            "label": self.label,
            "ranges": self.ranges.iter().map(|r| r.iter().map(|(c, w)| json!([c.0, c.1, w])).collect::<Vec<_>>()).collect::<Vec<_>>(),
        })
    }
    pub fn from_json(v: &Value) -> Config {
        let f: Vec<u8> = v["flop"].as_array().unwrap().iter().map(|x| x.as_u64().unwrap() as u8).collect();
        let ranges = v["ranges"]
            .as_array()
            .unwrap()
            .iter()
            .map(|r| {
                r.as_array()
                    .unwrap()
                    .iter()
                    .map(|e| {
                        (
                            Combo(e[0].as_u64().unwrap() as u8, e[1].as_u64().unwrap() as u8),
                            e[2].as_f64().unwrap() as f32,
                        )
                    })
                    .collect()
            })
            .collect();
        Config { flop: [f[0], f[1], f[2]], ranges, label: v["label"].as_str().unwrap_or("").to_string() }
    }
    /// product of range sizes (number of odometer states per position)
    pub fn pi(&self) -> u64 {
        self.ranges.iter().map(|r| r.len() as u64).product()
    }
    pub fn describe_ranges(ranges: &[Vec<(Combo, f32)>]) -> String {
        let parts: Vec<String> = ranges
            .iter()
            .map(|r| {
                if r.len() <= 10 {
                    format!(
                        "[{}]",
                        r.iter()
                            .map(|(c, w)| if *w == 1.0 { c.text() } else { format!("{}:{}", c.text(), w) })
                            .collect::<Vec<_>>()
                            .join(",")
                    )
                } else {
                    format!("[{} combos {}..{}]", r.len(), r[0].0.text(), r[r.len() - 1].0.text())
                }
            })
            .collect();
        parts.join("")
    }
}

/// one yielded showdown, reduced to what the properties talk about
#[derive(Clone, Debug, PartialEq)]
pub struct Sd {
    /// deck indexes of board()[3] and board()[4] (None if the card is not in the deck)
    pub turn: Option<u8>,
    pub river: Option<u8>,
    pub flop_ok: bool,
    pub combos: Vec<Combo>,
    pub prob: f32,
    pub n_players: usize,
}

impl Sd {
    /// position on the line, with turn/river taken as an unordered pair
    pub fn pos_unordered(&self) -> Option<usize> {
        match (self.turn, self.river) {
            (Some(a), Some(b)) if a != b => Some(pos_index(a.min(b), a.max(b))),
            _ => None,
        }
    }
    pub fn combo_key(&self) -> u128 {
        let mut k = 0u128;
        for c in &self.combos {
            k = (k << 11) | (c.id() as u128);
        }
        k
    }
}

pub fn reduce(sd: &Showdown, flop: &[u8; 3], deck: &[u8]) -> Sd {
    let b: &[Card; 5] = sd.board();
    let bi: Vec<u8> = b.iter().map(idx_of).collect();
    let find = |c: u8| deck.iter().position(|d| *d == c).map(|p| p as u8);
    let players = sd.players();
    let mut combos = Vec::with_capacity(players.len());
    for p in players.iter() {
        combos.push(Combo::of(&p.hole_cards()));
    }
    Sd {
        turn: find(bi[3]),
        river: find(bi[4]),
        flop_ok: bi[0] == flop[0] && bi[1] == flop[1] && bi[2] == flop[2],
        combos,
        prob: sd.probability(),
        n_players: players.len(),
    }
}

pub struct ImplRun {
    pub showdowns: Vec<Sd>,
    pub next_calls: u64,
    /// every extra next() after the first None returned None
    pub stays_exhausted: bool,
}

/// drive the real iterator to None (plus `extra` more calls); `cap` bounds the number of
/// yielded showdowns so that a runaway subject cannot exhaust memory
pub fn run_impl(
    cfg: &Config,
    scope: Option<(u8, u8, u8, u8)>,
    extra: usize,
    cap: u64,
) -> Result<ImplRun, String> {
    let deck = deck_without(&cfg.flop);
    let flop = cfg.flop;
    let ranges = cfg.hand_ranges();
    catch(move || {
        let mut ev = FlopExhaustiveEvaluator::new(&board_opt(&flop), &ranges);
        if let Some((a, b, c, d)) = scope {
            ev.scope(a, b, c, d);
        }
        let mut it = ev.into_iter();
        let mut out = vec![];
        let mut calls = 0u64;
        loop {
            calls += 1;
            match it.next() {
                Some(sd) => {
                    out.push(reduce(&sd, &flop, &deck));
                    if out.len() as u64 > cap {
                        panic!("harness cap: more than {} showdowns yielded", cap);
                    }
                }
                None => break,
            }
        }
        let mut stays = true;
        for _ in 0..extra {
            calls += 1;
            if it.next().is_some() {
                stays = false;
            }
        }
        ImplRun { showdowns: out, next_calls: calls, stays_exhausted: stays }
    })
}

/// M-deals for one position: all choices of one combo per player with 5+2n distinct cards.
/// Each is (combo key, product of weights in f64).
pub fn model_position(cfg: &Config, deck: &[u8], t: u8, r: u8, out: &mut Vec<(u128, f64)>) {
    let mut used: u64 = 0;
    for f in cfg.flop {
        used |= 1u64 << f;
    }
    used |= 1u64 << deck[t as usize];
    used |= 1u64 << deck[r as usize];
    fn rec(cfg: &Config, i: usize, used: u64, key: u128, p: f64, out: &mut Vec<(u128, f64)>) {
        if i == cfg.ranges.len() {
            out.push((key, p));
            return;
        }
        for (c, w) in &cfg.ranges[i] {
            let m = (1u64 << c.0) | (1u64 << c.1);
            if c.0 == c.1 || used & m != 0 {
                continue;
            }
            rec(cfg, i + 1, used | m, (key << 11) | c.id() as u128, p * (*w as f64), out);
        }
    }
    rec(cfg, 0, used, 0, 1.0, out);
}

/// the whole model run: per position (in line order) the sorted list of legal deals
pub fn model_run(cfg: &Config) -> Vec<Vec<(u128, f64)>> {
    let deck = deck_without(&cfg.flop);
    let mut all = Vec::with_capacity(1176);
    for (t, r) in positions() {
        let mut v = vec![];
        model_position(cfg, &deck, t, r, &mut v);
        v.sort_by(|a, b| a.0.cmp(&b.0));
        all.push(v);
    }
    all
}

pub fn decode_key(mut k: u128, n: usize) -> Vec<String> {
    let combos = all_combos();
    let mut v = vec![String::new(); n];
    for i in (0..n).rev() {
        v[i] = combos[(k & 0x7ff) as usize].text();
        k >>= 11;
    }
    v
}

/// compare an implementation run (already restricted to a window of positions
/// [from, to) on the line) with the model. `ordered` additionally demands position order
/// and board()[3] = D[t], board()[4] = D[r]. Returns the first discrepancy.
pub fn compare(
    cfg: &Config,
    model: &[Vec<(u128, f64)>],
    run: &ImplRun,
    from: usize,
    to: usize,
    ordered: bool,
    exact_prob: bool,
) -> Option<Value> {
    let n = cfg.ranges.len();
    let mut buckets: Vec<Vec<(u128, f32)>> = vec![vec![]; 1176];
    let mut last_pos: Option<usize> = None;
    for (i, sd) in run.showdowns.iter().enumerate() {
        if !sd.flop_ok {
            return Some(json!({"at_showdown": i, "problem": "board()[0..3] is not the flop in the given order"}));
        }
        if sd.n_players != n {
            return Some(json!({"at_showdown": i, "problem": format!("{} players in the showdown, {} ranges given", sd.n_players, n)}));
        }
        let p = match sd.pos_unordered() {
            Some(p) if p < 1176 => p,
            _ => return Some(json!({"at_showdown": i, "problem": "turn/river are not two different cards of the 49-card deck"})),
        };
        if ordered {
            if !(sd.turn < sd.river) {
                return Some(json!({"at_showdown": i, "problem": "board()[3], board()[4] are not (D[t], D[r]) with t < r"}));
            }
            if let Some(lp) = last_pos {
                if p < lp {
                    return Some(json!({"at_showdown": i, "problem": format!("position index {} yielded after position index {}", p, lp)}));
                }
            }
        }
        buckets[p].push((sd.combo_key(), sd.prob));
        last_pos = Some(p);
    }
    let pl = positions();
    for p in 0..1176 {
        let b = &mut buckets[p];
        b.sort_by(|a, b| a.0.cmp(&b.0));
        let expected: &[(u128, f64)] = if p >= from && p < to { &model[p] } else { &[] };
        if b.len() != expected.len() || b.iter().zip(expected.iter()).any(|(x, y)| x.0 != y.0) {
            // find the first differing deal
            let got: Vec<u128> = b.iter().map(|x| x.0).collect();
            let exp: Vec<u128> = expected.iter().map(|x| x.0).collect();
            let missing: Vec<Vec<String>> = exp.iter().filter(|k| !got.contains(k)).take(3).map(|k| decode_key(*k, n)).collect();
            let extra: Vec<Vec<String>> = got.iter().filter(|k| !exp.contains(k)).take(3).map(|k| decode_key(*k, n)).collect();
            let mut dup = vec![];
            for w in got.windows(2) {
                if w[0] == w[1] {
                    dup.push(decode_key(w[0], n));
                    break;
                }
            }
            return Some(json!({
                "position": [pl[p].0, pl[p].1], "position_index": p, "in_window": p >= from && p < to,
                "expected_deals": exp.len(), "yielded_deals": got.len(),
                "missing": missing, "not_legal_or_outside_window": extra, "yielded_twice": dup,
            }));
        }
        for (x, y) in b.iter().zip(expected.iter()) {
            let ok = if exact_prob {
                (x.1 as f64) == y.1
            } else {
                // relative slack for rounding in the f32 product, absolute slack of a few subnormal ulps for
                // products that underflow
                ((x.1 as f64) - y.1).abs() <= 1e-6 * (n.max(1) as f64) * y.1.abs() + 3e-45 * (n.max(1) as f64)
            };
            if !ok {
                return Some(json!({
                    "position": [pl[p].0, pl[p].1], "deal": decode_key(x.0, n),
                    "problem": "probability is not the product of the chosen combos' weights",
                    "expected": y.1, "observed": x.1,
                }));
            }
        }
    }
    None
}


/// Two-player tables whose sizes make a per-deal counter or generation stamp of 8 or 16 bits come round: player 0
/// holds one combo c0 whose two cards occur nowhere else (not in the other combos of either range, not on the flop,
/// not among the first deck cards) plus x other combos, player 1 holds y combos, for every factorisation
/// x*y in {254, 255, 256, 65534, 65535, 65536} (and the same with x+1 combos beside c0). Between two visits of c0
/// exactly x*y (+-1) other deals are attempted.
pub fn stamp_wrap_configs(flop: [u8; 3], small_only: bool) -> Vec<Config> {
    let d = deck_without(&flop);
    let c0 = Combo::new(d[40], d[41]);
    let pool: Vec<Combo> = all_combos().into_iter().filter(|c| !flop.contains(&c.0) && !flop.contains(&c.1) && c.0 != c0.0 && c.0 != c0.1 && c.1 != c0.0 && c.1 != c0.1).collect();
    let mut sizes: Vec<(usize, usize)> = vec![];
    let targets: &[usize] = if small_only { &[254, 255, 256] } else { &[254, 255, 256, 65534, 65535, 65536] };
    for &t in targets {
        for x in 1..=t {
            if t % x == 0 {
                let y = t / x;
                for xx in [x, x + 1] {
                    if xx <= pool.len() && y <= pool.len() && !sizes.contains(&(xx, y)) {
                        sizes.push((xx, y));
                    }
                }
            }
        }
    }
    let mut out = vec![];
    for (x, y) in sizes {
        let mut r0: Vec<(Combo, f32)> = vec![(c0, 0.5)];
        r0.extend(pool.iter().take(x).map(|c| (*c, 1.0f32)));
        let r1: Vec<(Combo, f32)> = pool[pool.len() - y..].iter().map(|c| (*c, 1.0f32)).collect();
        let label = format!("[{} + first {} other combos][last {} combos]", c0.text(), x, y);
        out.push(Config { flop, ranges: vec![r0, r1], label });
    }
    out
}

/// compare the real evaluator scoped to the window [from, to) of the position line with M-deals on that window only
/// (the model is computed for the window's positions alone, so wide ranges stay affordable)
pub fn check_window(c: &Config, from: usize, to: usize, exact_prob: bool) -> (Option<Value>, u64, u64) {
    let deck = deck_without(&c.flop);
    let pl = positions();
    let mut model: Vec<Vec<(u128, f64)>> = vec![vec![]; 1176];
    let mut expected = 0u64;
    for p in from..to {
        let (t, r) = pl[p];
        model_position(c, &deck, t, r, &mut model[p]);
        model[p].sort_by(|a, b| a.0.cmp(&b.0));
        expected += model[p].len() as u64;
    }
    let (tf, rf) = pl[from];
    let (tt, rt) = if to >= 1176 { (48, 49) } else { pl[to] };
    let cap = (to - from) as u64 * c.pi().max(1) + 16;
    let _h = crate::report::horizon("C02", "termination", format!("{} scope=positions {}..{}", c.key(), from, to), json!({"config": c.to_json(), "exact_prob": exact_prob, "window": [from, to]}), cap);
    match run_impl(c, Some((tf, rf, tt, rt)), 2, cap) {
        Err(e) => (Some(json!({"panic": e})), 0, expected),
        Ok(run) => {
            if !run.stays_exhausted {
                return (Some(json!({"problem": "next() returned Some after None"})), run.next_calls, expected);
            }
            (compare(c, &model, &run, from, to, true, exact_prob), run.next_calls, expected)
        }
    }
}
