//! Card universe of the harness, written from the game's rules and independent of
//! espada's own conversion tables: a card is an index 0..52 = rank_code*4 + suit_code with
//! rank_code 0 = ace .. 12 = deuce and suit_code 0..4 = spade, heart, diamond, club.
//! That is also the deck order the properties name ("ace to deuce and, within a rank,
//! spade, heart, diamond, club").

use espada::card::{Card, Rank, Suit};
use espada::hand_range::CardPair;

pub const RANKS: [Rank; 13] = [
    Rank::Ace,
    Rank::King,
    Rank::Queen,
    Rank::Jack,
    Rank::Ten,
    Rank::Nine,
    Rank::Eight,
    Rank::Seven,
    Rank::Six,
    Rank::Five,
    Rank::Four,
    Rank::Trey,
    Rank::Deuce,
];
pub const SUITS: [Suit; 4] = [Suit::Spade, Suit::Heart, Suit::Diamond, Suit::Club];
pub const RANK_CHARS: [char; 13] = [
    'A', 'K', 'Q', 'J', 'T', '9', '8', '7', '6', '5', '4', '3', '2',
];
pub const SUIT_CHARS: [char; 4] = ['s', 'h', 'd', 'c'];

#[inline]
pub fn card(idx: u8) -> Card {
    Card::new(RANKS[(idx >> 2) as usize], SUITS[(idx & 3) as usize])
}

/// index of an espada card, computed through `match` on the public enums only
#[inline]
pub fn idx_of(c: &Card) -> u8 {
    let r = match c.rank() {
        Rank::Ace => 0,
        Rank::King => 1,
        Rank::Queen => 2,
        Rank::Jack => 3,
        Rank::Ten => 4,
        Rank::Nine => 5,
        Rank::Eight => 6,
        Rank::Seven => 7,
        Rank::Six => 8,
        Rank::Five => 9,
        Rank::Four => 10,
        Rank::Trey => 11,
        Rank::Deuce => 12,
    };
    let s = match c.suit() {
        Suit::Spade => 0,
        Suit::Heart => 1,
        Suit::Diamond => 2,
        Suit::Club => 3,
    };
    r * 4 + s
}

pub fn all_cards() -> [Card; 52] {
    let mut v = [card(0); 52];
    for i in 0..52 {
        v[i] = card(i as u8);
    }
    v
}

pub fn card_text(idx: u8) -> String {
    let mut s = String::with_capacity(2);
    s.push(RANK_CHARS[(idx >> 2) as usize]);
    s.push(SUIT_CHARS[(idx & 3) as usize]);
    s
}

pub fn cards_text(idxs: &[u8]) -> String {
    idxs.iter().map(|&i| card_text(i)).collect::<Vec<_>>().join("")
}

/// unordered combo, a < b as indexes
#[derive(Clone, Copy, PartialEq, Eq, Hash, PartialOrd, Ord, Debug)]
pub struct Combo(pub u8, pub u8);

impl Combo {
    pub fn new(a: u8, b: u8) -> Combo {
        if a <= b {
            Combo(a, b)
        } else {
            Combo(b, a)
        }
    }
    pub fn text(&self) -> String {
        format!("{}{}", card_text(self.0), card_text(self.1))
    }
    pub fn card_pair(&self) -> CardPair {
        CardPair::new(card(self.0), card(self.1))
    }
    pub fn of(cp: &CardPair) -> Combo {
        Combo::new(idx_of(&cp[0]), idx_of(&cp[1]))
    }
    /// dense id 0..1326 in (a,b) lexicographic order
    pub fn id(&self) -> usize {
        let a = self.0 as usize;
        let b = self.1 as usize;
        // number of pairs with first < a: sum_{i<a} (51-i)
        a * 51 - a * (a.saturating_sub(1)) / 2 + (b - a - 1)
    }
}

/// all 1326 combos in lexicographic card order
pub fn all_combos() -> Vec<Combo> {
    let mut v = Vec::with_capacity(1326);
    for a in 0..52u8 {
        for b in (a + 1)..52u8 {
            v.push(Combo(a, b));
        }
    }
    v
}

/// M-deck: the 49 cards left after the flop, ace to deuce, s h d c within a rank
pub fn deck_without(flop: &[u8; 3]) -> Vec<u8> {
    (0..52u8).filter(|c| !flop.contains(c)).collect()
}

/// M-pos: the 1176 positions (t, r), t < r < 49, lexicographic
pub fn positions() -> Vec<(u8, u8)> {
    let mut v = Vec::with_capacity(1176);
    for t in 0..48u8 {
        for r in (t + 1)..49u8 {
            v.push((t, r));
        }
    }
    v
}

/// index of a position on the line; the terminal (48,49) is 1176
pub fn pos_index(t: u8, r: u8) -> usize {
    if t == 48 && r == 49 {
        return 1176;
    }
    let t = t as usize;
    let r = r as usize;
    // positions before turn t: sum_{i<t} (48-i)
    t * 48 - t * (t.saturating_sub(1)) / 2 + (r - t - 1)
}

pub fn board_opt(flop: &[u8; 3]) -> [Option<Card>; 5] {
    [
        Some(card(flop[0])),
        Some(card(flop[1])),
        Some(card(flop[2])),
        None,
        None,
    ]
}

pub fn all_flops() -> Vec<[u8; 3]> {
    let mut v = Vec::with_capacity(22100);
    for a in 0..52u8 {
        for b in (a + 1)..52u8 {
            for c in (b + 1)..52u8 {
                v.push([a, b, c]);
            }
        }
    }
    v
}

/// apply a suit permutation (perm[old] = new) to a card index
#[inline]
pub fn relabel(idx: u8, perm: &[u8; 4]) -> u8 {
    (idx & !3) | perm[(idx & 3) as usize]
}

pub fn suit_perms() -> Vec<[u8; 4]> {
    let mut v = vec![];
    for a in 0..4u8 {
        for b in 0..4u8 {
            for c in 0..4u8 {
                for d in 0..4u8 {
                    let p = [a, b, c, d];
                    let mut seen = [false; 4];
                    for x in p {
                        seen[x as usize] = true;
                    }
                    if seen.iter().all(|&s| s) {
                        v.push(p);
                    }
                }
            }
        }
    }
    v
}

#[cfg(test)]
mod tests {
    use super::*;
    #[test]
    fn ids_dense() {
        for (i, c) in all_combos().iter().enumerate() {
            assert_eq!(c.id(), i);
        }
        for (i, p) in positions().iter().enumerate() {
            assert_eq!(pos_index(p.0, p.1), i);
        }
        assert_eq!(suit_perms().len(), 24);
        assert_eq!(all_flops().len(), 22100);
    }
}
