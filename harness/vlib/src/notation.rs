//! M-notation (what a token means), M-canon (the canonical text of a range) and M-split
//! (complete rank pairs vs leftovers), written from the standard meaning of the notation
//! and independent of espada's RankRange / RankPair / token code.

use crate::cards::*;
use std::collections::BTreeMap;

#[derive(Clone, Copy, PartialEq, Eq, PartialOrd, Ord, Debug, Hash)]
pub enum RP {
    /// rank code
    Pocket(u8),
    /// high rank code < kicker rank code (ace = 0)
    Suited(u8, u8),
    Offsuit(u8, u8),
}

impl RP {
    pub fn combos(&self) -> Vec<Combo> {
        let mut v = vec![];
        match *self {
            RP::Pocket(r) => {
                for a in 0..4u8 {
                    for b in (a + 1)..4u8 {
                        v.push(Combo::new(r * 4 + a, r * 4 + b));
                    }
                }
            }
            RP::Suited(h, k) => {
                for s in 0..4u8 {
                    v.push(Combo::new(h * 4 + s, k * 4 + s));
                }
            }
            RP::Offsuit(h, k) => {
                for a in 0..4u8 {
                    for b in 0..4u8 {
                        if a != b {
                            v.push(Combo::new(h * 4 + a, k * 4 + b));
                        }
                    }
                }
            }
        }
        v
    }
    pub fn text(&self) -> String {
        match *self {
            RP::Pocket(r) => format!("{}{}", RANK_CHARS[r as usize], RANK_CHARS[r as usize]),
            RP::Suited(h, k) => format!("{}{}s", RANK_CHARS[h as usize], RANK_CHARS[k as usize]),
            RP::Offsuit(h, k) => format!("{}{}o", RANK_CHARS[h as usize], RANK_CHARS[k as usize]),
        }
    }
    pub fn of_combo(c: &Combo) -> RP {
        let (ra, rb) = (c.0 >> 2, c.1 >> 2);
        if ra == rb {
            RP::Pocket(ra)
        } else if c.0 & 3 == c.1 & 3 {
            RP::Suited(ra.min(rb), ra.max(rb))
        } else {
            RP::Offsuit(ra.min(rb), ra.max(rb))
        }
    }
    pub fn all() -> Vec<RP> {
        let mut v = vec![];
        for r in 0..13u8 {
            v.push(RP::Pocket(r));
        }
        for h in 0..12u8 {
            for k in (h + 1)..13u8 {
                v.push(RP::Suited(h, k));
                v.push(RP::Offsuit(h, k));
            }
        }
        v
    }
}

/// a well-formed token (without weight) and the combos it denotes in standard notation
#[derive(Clone, Debug)]
pub struct Tok {
    pub text: String,
    pub combos: Vec<Combo>,
    pub shape: &'static str,
}

fn rc(r: u8) -> char {
    RANK_CHARS[r as usize]
}

/// every well-formed rank-pair token, high card first
pub fn rank_pair_tokens() -> Vec<Tok> {
    let mut v = vec![];
    for r in 0..13u8 {
        v.push(Tok { text: format!("{}{}", rc(r), rc(r)), combos: RP::Pocket(r).combos(), shape: "XX" });
    }
    for r in 0..13u8 {
        v.push(Tok { text: format!("{}{}+", rc(r), rc(r)), combos: (0..=r).flat_map(|x| RP::Pocket(x).combos()).collect(), shape: "XX+" });
    }
    for a in 0..13u8 {
        for b in (a + 1)..13u8 {
            v.push(Tok { text: format!("{}{}-{}{}", rc(a), rc(a), rc(b), rc(b)), combos: (a..=b).flat_map(|x| RP::Pocket(x).combos()).collect(), shape: "XX-YY" });
        }
    }
    for suited in [true, false] {
        let s = if suited { 's' } else { 'o' };
        let mk = |h: u8, k: u8| if suited { RP::Suited(h, k) } else { RP::Offsuit(h, k) };
        for h in 0..12u8 {
            for k in (h + 1)..13u8 {
                v.push(Tok { text: format!("{}{}{}", rc(h), rc(k), s), combos: mk(h, k).combos(), shape: if suited { "XYs" } else { "XYo" } });
            }
        }
        for h in 0..12u8 {
            for k in (h + 1)..13u8 {
                v.push(Tok { text: format!("{}{}{}+", rc(h), rc(k), s), combos: ((h + 1)..=k).flat_map(|x| mk(h, x).combos()).collect(), shape: if suited { "XYs+" } else { "XYo+" } });
            }
        }
        for h in 0..12u8 {
            for k1 in (h + 1)..13u8 {
                for k2 in (k1 + 1)..13u8 {
                    v.push(Tok { text: format!("{}{}{}-{}{}{}", rc(h), rc(k1), s, rc(h), rc(k2), s), combos: (k1..=k2).flat_map(|x| mk(h, x).combos()).collect(), shape: if suited { "XYs-XZs" } else { "XYo-XZo" } });
                }
            }
        }
    }
    v
}

/// all 52x51 ordered card-pair tokens
pub fn card_pair_tokens() -> Vec<Tok> {
    let mut v = vec![];
    for a in 0..52u8 {
        for b in 0..52u8 {
            if a != b {
                v.push(Tok { text: format!("{}{}", card_text(a), card_text(b)), combos: vec![Combo::new(a, b)], shape: "card-pair" });
            }
        }
    }
    v
}

pub type Contents = BTreeMap<Combo, u32>; // weight as f32 bits

/// M-split: complete rank pairs (all combos present, one weight) and the leftovers
pub fn split(c: &Contents) -> (BTreeMap<RP, u32>, Contents) {
    let mut rps = BTreeMap::new();
    let mut left = c.clone();
    for rp in RP::all() {
        let cs = rp.combos();
        if let Some(w0) = c.get(&cs[0]) {
            if cs.iter().all(|x| c.get(x) == Some(w0)) {
                rps.insert(rp, *w0);
                for x in cs {
                    left.remove(&x);
                }
            }
        }
    }
    (rps, left)
}

pub fn weight_suffix(bits: u32) -> String {
    let w = f32::from_bits(bits);
    if w == 1.0 {
        String::new()
    } else {
        format!(":{}", w)
    }
}

/// M-canon: the rank-pair tokens of the canonical text, in order
pub fn canon_tokens(c: &Contents) -> Vec<String> {
    let (rps, _) = split(c);
    let mut out = vec![];
    // one row: cells top to bottom; run -> token
    let row = |cells: Vec<RP>, out: &mut Vec<String>| {
        let n = cells.len();
        let mut i = 0;
        while i < n {
            let w = match rps.get(&cells[i]) {
                Some(w) => *w,
                None => {
                    i += 1;
                    continue;
                }
            };
            let mut j = i;
            while j + 1 < n && rps.get(&cells[j + 1]) == Some(&w) {
                j += 1;
            }
            let suffix = weight_suffix(w);
            let t = if i == j {
                cells[i].text()
            } else if i == 0 {
                format!("{}+", cells[j].text())
            } else {
                format!("{}-{}", cells[i].text(), cells[j].text())
            };
            out.push(format!("{}{}", t, suffix));
            i = j + 1;
        }
    };
    row((0..13u8).map(RP::Pocket).collect(), &mut out);
    for h in 0..12u8 {
        row(((h + 1)..13u8).map(|k| RP::Suited(h, k)).collect(), &mut out);
        row(((h + 1)..13u8).map(|k| RP::Offsuit(h, k)).collect(), &mut out);
    }
    out
}

/// is this comma-separated piece a card-pair token (ignoring the weight)?
pub fn parse_card_pair_piece(p: &str) -> Option<(Combo, String)> {
    let (head, w) = match p.split_once(':') {
        Some((h, w)) => (h, format!(":{}", w)),
        None => (p, String::new()),
    };
    let b = head.as_bytes();
    if b.len() != 4 {
        return None;
    }
    let f = |r: u8, s: u8| -> Option<u8> {
        let ri = RANK_CHARS.iter().position(|c| *c == r as char)?;
        let si = SUIT_CHARS.iter().position(|c| *c == s as char)?;
        Some((ri * 4 + si) as u8)
    };
    let a = f(b[0], b[1])?;
    let c = f(b[2], b[3])?;
    Some((Combo::new(a, c), w))
}

/// contents of a real HandRange
pub fn contents_of(r: &espada::hand_range::HandRange) -> Contents {
    r.card_pairs().iter().map(|(cp, w)| (Combo::of(cp), w.to_bits())).collect()
}

/// a real HandRange with these contents (collected in key order)
pub fn range_of(c: &Contents) -> espada::hand_range::HandRange {
    c.iter().map(|(cb, w)| (cb.card_pair(), f32::from_bits(*w))).collect()
}

pub fn contents_text(c: &Contents) -> String {
    if c.len() > 24 {
        let first: Vec<String> = c.iter().take(6).map(|(cb, w)| format!("{}{}", cb.text(), weight_suffix(*w))).collect();
        return format!("{} combos: {},...", c.len(), first.join(","));
    }
    c.iter().map(|(cb, w)| format!("{}{}", cb.text(), weight_suffix(*w))).collect::<Vec<_>>().join(",")
}
