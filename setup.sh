#!/usr/bin/env bash
# offline build of the whole harness from files on disk
set -e
ROOT="$(cd "$(dirname "${BASH_SOURCE[0]}")" && pwd)"
export CARGO_NET_OFFLINE=true
export CARGO_TARGET_DIR="$ROOT/harness/target"
cd "$ROOT/harness"
cargo build --offline -p vcheck -p sched -p sendsync --profile checked
cargo build --offline -p drain
cargo build --offline -p drain -p vcheck --release
(cd /repo && cargo build --offline --release --example multi-thread --target-dir "$CARGO_TARGET_DIR/repo-example")
