#!/usr/bin/env python3
"""seed_table.py <round> [<after-log> <strengthening.json>]

Prints the DESIGN.md table of one seeding round from seeded/<ID>-<round><V>/meta.json.
With an after-log (output of verify_seeds_parallel.py --no-meta against the strengthened harness) and a
JSON file {seed: "what was strengthened"}, first records for every seed the target check had missed:
target_check_quick_before_strengthening / strengthening / target_check_quick_after_strengthening.
"""
import json, os, re, sys

def main():
    rnd = sys.argv[1]
    root = os.path.join(os.path.dirname(os.path.abspath(__file__)), '..', 'seeded')
    tag = '' if rnd == '1' else rnd
    if len(sys.argv) >= 4:
        after = {}
        for l in open(sys.argv[2]):
            try: d = json.loads(l)
            except Exception: continue
            after[d['seed']] = d
        notes = json.load(open(sys.argv[3]))
        for seed, d in after.items():
            mp = os.path.join(root, seed, 'meta.json')
            m = json.load(open(mp))
            ID = m['breaks_property']
            if ID in m['detected_by'] and 'strengthening' not in m:
                continue
            m['target_check_quick_before_strengthening'] = "MISSED (./check %s quick exited 0 with the round-%d harness, the committed HEAD at the time; see findings/seeding-round%s-verify.log)" % (ID, int(rnd) - 1, rnd)
            m['strengthening'] = notes.get(seed, '')
            if ID in d['detected_by']:
                m['target_check_quick_after_strengthening'] = "DETECTED: " + d['first'].get(ID, '')
            else:
                m['target_check_quick_after_strengthening'] = "still missed"
            json.dump(m, open(mp, 'w'), indent=1)
    rows = []
    for name in sorted(os.listdir(root)):
        mm = re.match(r'(C\d\d)-%s([AB])$' % tag, name)
        if not mm: continue
        m = json.load(open(os.path.join(root, name, 'meta.json')))
        if m.get('round', 1) != int(rnd): continue
        ID = m['breaks_property']
        note = (m.get('needs_to_manifest') or '').strip().splitlines()
        note = [l for l in note if l.strip() and not l.startswith('#')]
        change = re.sub(r'[|`*]', '', note[0])[:110].strip() if note else ''
        others = [c for c in m['detected_by'] if c != ID]
        if ID in m['detected_by'] and 'strengthening' not in m:
            status = 'detected'; first = m['per_check'][ID]['first_violation']
        elif m.get('target_check_quick_after_strengthening', '').startswith('DETECTED'):
            status = '**missed** → strengthened → detected'; first = m['target_check_quick_after_strengthening'][10:]
        else:
            status = m.get('note', '**missed**'); first = ''
        first = re.sub(r'\|', '/', first)[:120]
        rows.append('| %s | %s | %s | `%s` | %s |' % (name, change, status, first, ' '.join(others) or '-'))
    print('| seed | change (from the author\'s notes) | target check, quick tier | first violation reported | also reported by |')
    print('|---|---|---|---|---|')
    print('\n'.join(rows))

if __name__ == '__main__':
    main()
