#!/usr/bin/env python3
"""Generate the instrumented copy of espada: <repo>/src with std's synchronisation primitives, thread-locals and
thread API textually redirected to shuttle's, so that the controlled scheduler owns every lock / atomic / TLS access
a change may introduce. usage: gen_shadow.py <repo> <out_dir>. Prints what was rewritten (JSON)."""
import os, re, sys, json, shutil
repo, out = sys.argv[1], sys.argv[2]
src, dst = os.path.join(repo, 'src'), os.path.join(out, 'src')
if os.path.exists(dst): shutil.rmtree(dst)
SHUTTLE_SYNC = {'Mutex','MutexGuard','RwLock','RwLockReadGuard','RwLockWriteGuard','Condvar','Barrier','Once','mpsc','atomic'}
counts = {}
def bump(k, n=1):
    if n: counts[k] = counts.get(k, 0) + n
def rewrite(text):
    def grouped(m):
        items = [x.strip() for x in m.group(2).split(',') if x.strip()]
        lines = []
        for it in items:
            head = it.split('::')[0].split(' as ')[0].strip()
            root = 'shuttle::sync' if head in SHUTTLE_SYNC else 'std::sync'
            if root == 'shuttle::sync': bump('use std::sync::{..} item -> shuttle')
            lines.append('%suse %s::%s;' % (m.group(1), root, it))
        return '\n'.join(lines)
    text = re.sub(r'(?m)^(\s*(?:pub\s+)?)use\s+std::sync::\{([^}]*)\};', grouped, text)
    for name in sorted(SHUTTLE_SYNC):
        pat = r'\bstd::sync::%s\b' % name
        n = len(re.findall(pat, text)); bump('std::sync::%s' % name, n)
        text = re.sub(pat, 'shuttle::sync::%s' % name, text)
    n = len(re.findall(r'\b(?:std::)?thread_local!', text)); bump('thread_local!', n)
    text = re.sub(r'\b(?:std::)?thread_local!', 'shuttle::thread_local!', text)
    n = len(re.findall(r'\bstd::thread::', text)); bump('std::thread::', n)
    text = re.sub(r'\bstd::thread::', 'shuttle::thread::', text)
    text = re.sub(r'(?m)^(\s*(?:pub\s+)?)use\s+std::thread\s*;', r'\1use shuttle::thread;', text)
    return text
for root, dirs, files in os.walk(src):
    rel = os.path.relpath(root, src)
    if 'snapshots' in rel.split(os.sep): continue
    os.makedirs(os.path.join(dst, rel), exist_ok=True)
    for f in files:
        if not f.endswith('.rs'): continue
        t = open(os.path.join(root, f)).read()
        open(os.path.join(dst, rel, f), 'w').write(rewrite(t))
print(json.dumps({"rewrites": counts, "instrumented_items": sum(counts.values())}))
