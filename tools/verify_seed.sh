#!/usr/bin/env bash
# verify_seed.sh <ID> <A|B> [checks...]   - confirm a sub-agent's seeded change and run the checks against it
#  1. in the scratch worktree /tmp/seed-<ID>: patch applies, suite passes with it, demo fails with it and passes without
#  2. apply to /repo, run the given checks (default: all quick), undo
# writes /verif/seeded/<ID>-<V>/{patch.diff,demo.rs,notes.md,meta.json}
set -u
ID="$1"; V="$2"; shift 2
WT=/tmp/seed4-$ID; SRC=$WT/out/$V; DST=/verif/seeded/$ID-4$V
[ -f "$SRC/patch.diff" ] || { echo "no patch at $SRC"; exit 2; }
export CARGO_NET_OFFLINE=true CARGO_TARGET_DIR=$WT/target
cd $WT || exit 2
git checkout -q -- . ; rm -f tests/demo_* ; mkdir -p tests
git apply --check "$SRC/patch.diff" || { echo "patch does not apply"; exit 2; }
git apply "$SRC/patch.diff"
suite=$(cargo test --workspace --no-fail-fast --offline 2>&1 | grep -E "^test result" | head -1)
ex=""
if git diff --name-only | grep -q examples/; then ex=$(cargo test --offline --example multi-thread 2>&1 | grep -E "^test result" | head -1); fi
cp "$SRC/demo.rs" tests/demo_seed.rs
demo_with=$(cargo test --offline --test demo_seed 2>&1 | grep -E "^test result" | head -1)
git checkout -q -- .
demo_without=$(cargo test --offline --test demo_seed 2>&1 | grep -E "^test result" | head -1)
rm -f tests/demo_seed.rs; rmdir tests 2>/dev/null
echo "suite with patch   : $suite $ex"
echo "demo with patch    : $demo_with"
echo "demo without patch : $demo_without"
# 2. run the checks on /repo
cd /verif
[ -z "$(git -C /repo status --porcelain)" ] || { echo "/repo not clean"; exit 2; }
git -C /repo apply "$SRC/patch.diff" || exit 2
checks="$*"; [ -n "$checks" ] || checks="C01 C02 C03 C04 C05 C06 C07 C08 C09 C10 C11 C12 C13 C14 C15 C16 C17"
detected=""; results=""
for c in $checks; do
  out=$(./check $c quick 2>&1); rc=$?
  first=$(echo "$out" | grep -A1 "^VIOLATION" | sed -n 2p | cut -c1-220)
  if [ $rc -eq 1 ]; then detected="$detected $c"; fi
  results="$results$c rc=$rc $first\n"
done
git -C /repo checkout -- . ; git -C /repo status --porcelain; git -C /verif checkout -- evidence
printf "$results"
echo "DETECTED BY:$detected"
mkdir -p $DST
cp "$SRC/patch.diff" "$SRC/demo.rs" $DST/ ; cp "$SRC/notes.md" $DST/ 2>/dev/null
python3 - "$ID" "$V" "$suite" "$demo_with" "$demo_without" "$detected" "$checks" <<'PY'
import json,sys
ID,V,suite,dw,dwo,det,checks=sys.argv[1:8]
meta={"breaks_property":ID,"variant":V,"suite_with_patch":suite,"demo_with_patch":dw,"demo_without_patch":dwo,
      "checks_run":checks.split(),"tier":"quick","detected_by":det.split(),
      "what_i_ran":"tools/verify_seed.sh %s %s (scratch worktree: cargo test --workspace, demo with/without patch; then git -C /repo apply, ./check <id> quick for each listed check, git -C /repo checkout -- .)"%(ID,V)}
try:
    meta["needs_to_manifest"]=open("/verif/seeded/%s-4%s/notes.md"%(ID,V)).read()[:1500]
except Exception: pass
json.dump(meta,open("/verif/seeded/%s-4%s/meta.json"%(ID,V),"w"),indent=1)
PY
