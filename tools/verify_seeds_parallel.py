#!/usr/bin/env python3
"""verify_seeds_parallel.py <round> <slots> [--harness DIR] [--only ID-V,...] [--checks target|related]

Confirms sub-agent seeds and runs the checks against them, several at a time, WITHOUT touching /repo:
each job runs in a private mount namespace (unshare -m) in which the seed's scratch worktree
/tmp/seed<round>-<ID> (with the patch applied) is bind-mounted over /repo, from a private copy of
/verif (slot directory /tmp/vslot-<k>, own cargo target dir). Results go to
/verif/seeded/<ID>-<round><V>/meta.json (round 1 uses no round digit) and to stdout.

For each seed: (1) patch applies to the clean worktree, suite passes with it, demo fails with it and
passes without; (2) the selected checks' quick tiers are run against the patched tree.
"""
import json, os, re, subprocess, sys, threading, queue, shutil, time

def sh(cmd, **kw):
    return subprocess.run(cmd, shell=True, capture_output=True, text=True, **kw)

def related_checks(ID, patch):
    files = re.findall(r'^\+\+\+ b/(.*)$', open(patch).read(), flags=re.M)
    checks = {ID}
    for f in files:
        if f in ('src/evaluator/made_hand.rs', 'src/evaluator/dp_table.rs'): checks |= {'C01', 'C03', 'C07', 'C11', 'C02'}
        elif f == 'src/evaluator/showdown.rs': checks |= {'C03', 'C02', 'C11', 'C15', 'C10'}
        elif f == 'src/evaluator/flop_exhaustive.rs': checks |= {'C02', 'C04', 'C08', 'C09', 'C10', 'C11', 'C15', 'C16'}
        elif f == 'src/hand_range/card_pair.rs': checks |= {'C14', 'C05', 'C06', 'C09', 'C10', 'C17'}
        elif f.startswith('src/hand_range/'): checks |= {'C05', 'C06', 'C09', 'C10', 'C12', 'C17', 'C14'}
        elif f.startswith('src/card/'): checks |= {'C13', 'C14', 'C05', 'C06', 'C09', 'C01'}
        elif f.startswith('examples/'): checks |= {'C16'}
    return sorted(checks)

def main():
    rnd = sys.argv[1]; slots = int(sys.argv[2])
    harness = '/verif'
    only = None; mode = 'related'; nometa = [False]; slotp = ['']
    a = sys.argv[3:]
    while a:
        if a[0] == '--harness': harness = a[1]; a = a[2:]
        elif a[0] == '--only': only = set(a[1].split(',')); a = a[2:]
        elif a[0] == '--checks': mode = a[1]; a = a[2:]
        elif a[0] == '--no-meta': nometa[0] = True; a = a[1:]
        elif a[0] == '--slot-prefix': slotp[0] = a[1]; a = a[2:]
        else: a = a[1:]
    prefix = '/tmp/seed%s-' % ('' if rnd == '1' else rnd)
    tag = '' if rnd == '1' else rnd
    seeds = []
    for d in sorted(os.listdir('/tmp')):
        m = re.match(r'seed%s-(C\d\d)$' % ('' if rnd == '1' else rnd), d)
        if not m: continue
        for V in ('A', 'B'):
            p = '/tmp/%s/out/%s/patch.diff' % (d, V)
            if os.path.exists(p):
                name = '%s-%s%s' % (m.group(1), tag, V)
                if only and name not in only: continue
                seeds.append((m.group(1), V, '/tmp/' + d, name))
    q = queue.Queue()
    for s in seeds: q.put(s)
    lock = threading.Lock()
    # one job at a time per worktree (A and B share it)
    wt_locks = {}
    def worker(k):
        slot = '/tmp/vslot-%s%d' % (slotp[0], k)
        while True:
            try: ID, V, WT, name = q.get_nowait()
            except queue.Empty: return
            wl = wt_locks.setdefault(WT, threading.Lock())
            with wl:
                res = one(slot, ID, V, WT, name)
            with lock:
                print(json.dumps(res)); sys.stdout.flush()
    def one(slot, ID, V, WT, name):
        t0 = time.time()
        src = '%s/out/%s' % (WT, V)
        env = 'CARGO_NET_OFFLINE=true CARGO_TARGET_DIR=%s/target RUST_BACKTRACE=0' % WT
        sh('cd %s && git checkout -q -- . ; git clean -fdq -- src examples benches ; rm -rf tests/demo_seed.rs' % WT)
        if sh('cd %s && git apply --check %s/patch.diff' % (WT, src)).returncode != 0:
            return {"seed": name, "error": "patch does not apply"}
        sh('cd %s && git apply %s/patch.diff' % (WT, src))
        suite = sh('cd %s && %s cargo test --workspace --no-fail-fast --offline 2>&1 | grep -E "^test result" | head -1' % (WT, env)).stdout.strip()
        sh('mkdir -p %s/tests && cp %s/demo.rs %s/tests/demo_seed.rs' % (WT, src, WT))
        # a demonstration of a release-only defect says so in its first line
        rel = '--release ' if 'RUN WITH --release' in open(src + '/demo.rs').read()[:300] else ''
        demo_with = sh('cd %s && %s cargo test %s--offline --test demo_seed 2>&1 | grep -E "^test result" | head -1' % (WT, env, rel)).stdout.strip()
        sh('cd %s && git checkout -q -- . ; git clean -fdq -- src examples benches' % WT)
        demo_without = sh('cd %s && %s cargo test %s--offline --test demo_seed 2>&1 | grep -E "^test result" | head -1' % (WT, env, rel)).stdout.strip()
        if rel:
            demo_with += ' [--release]'; demo_without += ' [--release]'
        sh('rm -f %s/tests/demo_seed.rs; rmdir %s/tests 2>/dev/null' % (WT, WT))
        # patched tree for the checks
        sh('cd %s && git apply %s/patch.diff' % (WT, src))
        checks = [ID] if mode == 'target' else related_checks(ID, src + '/patch.diff')
        # private copy of the harness for this slot (sources refreshed every time, build output kept)
        os.makedirs(slot, exist_ok=True)
        sh('rsync -a --delete --exclude harness/target --exclude .git --exclude seeded --exclude findings %s/ %s/' % (harness, slot))
        per = {}
        detected = []
        for c in checks:
            r = sh("unshare -m bash -c 'mount --bind %s /repo && cd %s && ./check %s quick 2>&1'" % (WT, slot, c))
            out = r.stdout
            first = ''
            m = re.search(r'^VIOLATION.*\n(.*)', out, flags=re.M)
            if m: first = m.group(1).strip()[:220]
            per[c] = {"rc": r.returncode, "first_violation": first}
            if r.returncode == 1: detected.append(c)
            if r.returncode not in (0, 1):
                per[c]["tail"] = out[-400:]
        sh('cd %s && git checkout -q -- . ; git clean -fdq -- src examples benches' % WT)
        if nometa[0]:
            return {"seed": name, "detected_by": detected, "first": {c: per[c]["first_violation"] for c in per}, "machinery": [c for c in per if per[c]["rc"] not in (0, 1)], "secs": round(time.time() - t0)}
        dst = '/verif/seeded/%s' % name
        os.makedirs(dst, exist_ok=True)
        for f in ('patch.diff', 'demo.rs', 'notes.md'):
            if os.path.exists(src + '/' + f): shutil.copy(src + '/' + f, dst + '/' + f)
        meta = {"breaks_property": ID, "variant": V, "round": int(rnd), "suite_with_patch": suite, "demo_with_patch": demo_with,
                "demo_without_patch": demo_without, "checks_run": checks, "tier": "quick", "detected_by": detected, "per_check": per,
                "what_i_ran": "tools/verify_seeds_parallel.py %s (scratch worktree: cargo test --workspace with the patch, demo with/without; then each listed check's quick tier in a private mount namespace with the patched worktree bind-mounted over /repo)" % rnd}
        try: meta["needs_to_manifest"] = open(dst + '/notes.md').read()[:1500]
        except Exception: pass
        mp = dst + '/meta.json'
        if os.path.exists(mp):
            old = json.load(open(mp))
            for k2 in ('target_check_quick_before_strengthening', 'strengthening', 'target_check_quick_after_strengthening', 'note'):
                if k2 in old: meta[k2] = old[k2]
        json.dump(meta, open(mp, 'w'), indent=1)
        return {"seed": name, "suite": suite[:40], "demo_with": demo_with[:34], "demo_without": demo_without[:30], "detected_by": detected,
                "machinery": [c for c in per if per[c]["rc"] not in (0, 1)], "secs": round(time.time() - t0)}
    ts = [threading.Thread(target=worker, args=(k,)) for k in range(slots)]
    for t in ts: t.start()
    for t in ts: t.join()

if __name__ == '__main__':
    main()
