#!/usr/bin/env bash
# run every check of one tier, print one line per property
tier="${1:-quick}"
cd "$(dirname "$0")/.."
for i in $(seq -w 1 17); do
  id="C$i"; s=$(date +%s.%N)
  out=$(./check "$id" "$tier" 2>/dev/null); rc=$?
  e=$(date +%s.%N)
  printf "%s rc=%s %.1fs %s\n" "$id" "$rc" "$(echo "$e - $s" | bc)" "$(echo "$out" | tail -1)"
done
