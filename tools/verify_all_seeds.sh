#!/usr/bin/env bash
# run verify_seed.sh for every delivered seed, choosing the checks by the files the patch touches
cd /verif
for d in /tmp/seed4-C*/out/[AB]; do
  id=$(echo $d | sed 's|/tmp/seed4-\(C[0-9]*\)/out/.*|\1|'); v=$(basename $d)
  [ -f $d/patch.diff ] || continue
  files=$(grep '^+++ b/' $d/patch.diff | sed 's|+++ b/||')
  checks="$id"
  for f in $files; do
    case $f in
      src/evaluator/made_hand.rs|src/evaluator/dp_table.rs) checks="$checks C01 C03 C07 C11 C02";;
      src/evaluator/showdown.rs) checks="$checks C03 C02 C11 C15 C10";;
      src/evaluator/flop_exhaustive.rs) checks="$checks C02 C04 C08 C09 C10 C11 C15 C16";;
      src/hand_range/card_pair.rs) checks="$checks C14 C05 C06 C09 C10 C17";;
      src/hand_range/*) checks="$checks C05 C06 C09 C10 C12 C17";;
      src/card/*) checks="$checks C13 C14 C05 C06 C09 C01";;
      examples/*) checks="$checks C16";;
    esac
  done
  checks=$(echo $checks | tr ' ' '\n' | sort -u | tr '\n' ' ')
  echo "=== $id-$v : $checks"
  tools/verify_seed.sh $id $v $checks 2>&1 | grep -v WARNING
done
