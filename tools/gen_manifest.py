#!/usr/bin/env python3
"""Regenerates /verif/MANIFEST.json from the table below (single source of truth)."""
import json, os
ROOT = os.path.dirname(os.path.dirname(os.path.abspath(__file__)))
ALL = ["C%02d" % i for i in range(1, 18)]

CLAIMED = {
 "C01": dict(
  technique="exhaustive input-space enumeration of the real evaluator (all C(52,7) sets x structured orders; all 7! orders on suit-class representatives) against a from-the-rules reference model",
  text="Every one of the 133,784,560 seven-card sets is evaluated by the real MadeHand::from and compared with a reference ranking built from the rules (best of 21 five-card subsets); order independence is enumerated over 14 orders per set and all 5040 orders per suit-isomorphism class; comparison operators over all pairs of class witnesses. The set dimension is complete, so no reachable table slot is unvisited.",
  note="Trusts the harness reference ranking M-rank (self-checked each run: 7462 classes, per-category counts, published 7-card histogram). Presentation orders are complete only on class representatives unless VERIF_DEEP=1.",
  ref="4/C01"),
 "C07": dict(
  technique="exhaustive input-space enumeration of the real evaluator (all C(52,7) sets) against the reference model's category",
  text="hand_type() is called on every seven-card set and its name compared with the category of the true best five-card hand; all 4,824 reachable indexes and every category boundary are therefore hit.",
  note="Trusts M-rank's category assignment (self-checked counts). Indexes unreachable from seven cards are outside the property.",
  ref="4/C07"),
 "C02": dict(
  technique="explicit-state exploration of the real iterator: every next() transition for every configuration of a colliding alphabet, compared per position as a multiset with a reference enumerator of legal deals",
  text="The real FlopExhaustiveEvaluator iterator is driven from into_iter() to None for every range configuration of a small alphabet built so that combos collide with each other, with the flop and with both ends of the deck (all subsets for 1 player, all subset pairs for 2, triples for 3, up to 10 players, every range size across the u8 boundaries, all 22,100 flops in thorough); the complete yield is compared with the model's legal deals: nothing missing, extra or twice, correct board, players and probability.",
  note="Trusts M-deals (direct transcription of the property). Ranges are drawn from the structured alphabet and from prefixes/suffixes of the 1326 combos, not from all 2^1326 subsets.",
  ref="4/C02"),
 "C08": dict(
  technique="exhaustive exploration of termination outcomes over a family of configurations with iterated deviation bound (length of the run of consecutive blocked deals), each run as a child process on a 2 MiB stack in the stock dev and release profiles",
  text="The observable of the property (returns normally / panics / exhausts the stack / does not terminate) is taken from the exit status of a child process that drains the real evaluator on a 2 MiB thread, for every configuration of the family and for both build profiles.",
  note="Trusts the OS exit status and the 2 MiB stack size given to the thread. The family is structured (blocked runs up to 1.18 M deals, sizes around u8 boundaries, empty ranges, realistic notation), not all inputs.",
  ref="4/C08"),
 "C13": dict(
  technique="complete enumeration of the finite domains (52 cards, 13 ranks, 4 suits, all 1- and 2-char ASCII strings, all Unicode scalars, all range endpoint pairs) on the real conversions",
  text="Every value of every finite domain named by the property is run through the real conversion functions and compared with tables written from the property text.",
  note="Trusts the harness tables (rank/suit order and characters) transcribed from the property statement.",
  ref="4/C13"),
 "C14": dict(
  technique="complete enumeration of all 52x51 ordered card pairs on the real CardPair/HandRange code",
  text="All ordered pairs of distinct cards: equality, hashes under two hashers, element order, text round trip, and a range built from both orders of every combo.",
  note="Card order is taken from Card's Ord (tied to the stated order by C13).",
  ref="4/C14"),
}

PENDING_REASON = "check under construction in this round; not claimed until it runs clean on the tree"

def main():
    checks = []
    for pid in ALL:
        if pid not in CLAIMED:
            continue
        c = CLAIMED[pid]
        checks.append({
            "property_id": pid,
            "quick_cmd": "./check %s quick" % pid,
            "thorough_cmd": "./check %s thorough" % pid,
            "evidence_file": "/verif/evidence/%s.json" % pid,
            "replay_cmd_template": "./check %s --replay {path}" % pid,
            "engine": c.get("engine", "vcheck"),
            "level_claimed": {"category": "model_checking", "text": c["text"], "design_ref": "DESIGN.md section " + c["ref"]},
            "level_note": c["note"],
            "technique": c["technique"],
        })
    m = {
        "version": 1,
        "setup_cmd": "./setup.sh",
        "hooks": {
            "guard": "espada_verif",
            "enable": "none needed: every observation point is public API; the cfg espada_verif guards nothing",
            "baseline_off_cmd": "cd /repo && cargo test --workspace --no-fail-fast --offline",
            "source_commits": [],
            "add_only": True,
        },
        "engines": [
            {"name": "vcheck", "path": "/verif/harness/vcheck", "serves_properties": [p for p in ALL if p in CLAIMED and CLAIMED[p].get("engine", "vcheck") == "vcheck"],
             "kind_free_text": "bounded-exhaustive enumeration / explicit-state exploration of the real espada code against in-language reference models (vlib)"},
        ],
        "checks": checks,
        "notes": "All checks rebuild espada from /repo's working tree through a cargo path dependency. Exit 2 = machinery failure, never a verdict.",
        "not_applicable": [{"property_id": p, "reason": PENDING_REASON} for p in ALL if p not in CLAIMED],
    }
    json.dump(m, open(os.path.join(ROOT, "MANIFEST.json"), "w"), indent=1)
    print("wrote MANIFEST.json with", len(checks), "checks")

if __name__ == "__main__":
    main()
