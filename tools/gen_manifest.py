#!/usr/bin/env python3
"""Regenerates /verif/MANIFEST.json from the table below (single source of truth)."""
import json, os
ROOT = os.path.dirname(os.path.dirname(os.path.abspath(__file__)))
ALL = ["C%02d" % i for i in range(1, 18)]

CLAIMED = {
 "C01": dict(
  technique="exhaustive input-space enumeration of the real evaluator (all C(52,7) sets x structured orders; all 7! orders on suit-class representatives) against a from-the-rules reference model",
  text="Every one of the 133,784,560 seven-card sets is evaluated by the real MadeHand::from and compared with a reference ranking built from the rules (best of 21 five-card subsets); order independence is enumerated over 14 orders per set and all 5040 orders per suit-isomorphism class; comparison operators over all pairs of class witnesses. The set dimension is complete, so no reachable table slot is unvisited.",
  note="Trusts the harness reference ranking M-rank (self-checked each run: 7462 classes, per-category counts, published 7-card histogram). Presentation orders are complete only on class representatives unless VERIF_DEEP=1.",
  ref="4/C01"),
 "C07": dict(
  technique="exhaustive input-space enumeration of the real evaluator (all C(52,7) sets) against the reference model's category",
  text="hand_type() is called on every seven-card set and its name compared with the category of the true best five-card hand; all 4,824 reachable indexes and every category boundary are therefore hit.",
  note="Trusts M-rank's category assignment (self-checked counts). Indexes unreachable from seven cards are outside the property.",
  ref="4/C07"),
 "C02": dict(
  technique="explicit-state exploration of the real iterator: every next() transition for every configuration of a colliding alphabet, compared per position as a multiset with a reference enumerator of legal deals; plus long in-iterator histories (tables sized over every factorisation of 2^8 and 2^16 +-1), eight construction routes to equal range contents, and the iterator adapters",
  text="The real FlopExhaustiveEvaluator iterator is driven from into_iter() to None for every range configuration of a small alphabet built so that combos collide with each other, with the flop and with both ends of the deck (all subsets for 1 player, all subset pairs for 2, triples for 3, up to 10 players, every range size across the u8 boundaries, all 22,100 flops in thorough); the complete yield is compared with the model's legal deals: nothing missing, extra or twice, correct board, players and probability.",
  note="Trusts M-deals (direct transcription of the property). Ranges are drawn from the structured alphabet and from prefixes/suffixes of the 1326 combos, not from all 2^1326 subsets.",
  ref="4/C02"),
 "C08": dict(
  technique="exhaustive exploration of termination outcomes over a family of configurations with iterated deviation bound (length of the run of consecutive blocked deals), each run as a child process on a 2 MiB stack in the stock dev and release profiles",
  text="The observable of the property (returns normally / panics / exhausts the stack / does not terminate) is taken from the exit status of a child process that drains the real evaluator on a 2 MiB thread, for every configuration of the family and for both build profiles.",
  note="Trusts the OS exit status and the 2 MiB stack size given to the thread. The family is structured (blocked runs up to 1.18 M deals, sizes around u8 boundaries, empty ranges, realistic notation), not all inputs.",
  ref="4/C08"),
 "C03": dict(
  technique="bounded-exhaustive enumeration of tables on the real Showdown::new (every weak ordering of <=4 players, every winner subset of 5-10 players from a type alphabet, board-plays ties, all C(52,5) boards x fixed tables) against the reference ranking; plus call histories on one thread: all sequences of three calls over 24 deals, and runs of 66,000 repeated calls per seat of a full table",
  text="Real Showdown::new on families that realise every one of the 1/3/13/75 weak orderings of up to four players (measured on every run), every tie pattern at a full table, all-tie boards, every hole/board collision slot and (thorough) all 2,598,960 boards; flags, winner_len, order, own evaluation compared with the M-rank classes.",
  note="Trusts M-rank. Boards x tables are structured families, not the full product.",
  ref="4/C03"),
 "C04": dict(
  technique="explicit-state exploration from every start state: all 693,253 scope windows of the position line run on the real iterator to exhaustion (+3 calls) and compared with the unscoped run; all two-cuts and grid three-cuts; repeated scope(); joint scope vs chain of one-position scopes on tables of up to 65,536 deals per position",
  text="Every (from, to) window of the 1176-position line (terminal included) is run on the real scoped evaluator and must yield exactly the unscoped showdowns of positions in [from,to), position by position in order, then stay exhausted. The window dimension is enumerated completely.",
  note="Reference = unscoped run of the same real evaluator, cross-checked with M-deals. One configuration in quick, four in thorough.",
  ref="4/C04"),
 "C05": dict(
  technique="exhaustive enumeration of the token grammar (all 3,640 well-formed tokens x 9 weight literals) and bounded-exhaustive token lists (all ordered pairs, triples over a sub-alphabet, partly present rank pairs, all weight literals of <= 3 fraction digits) on the real parser against a reference meaning; every consumption protocol of every token expansion iterator",
  text="Every well-formed token generated from the grammar is parsed both as a token (and expanded) and as a range and compared with the combos it denotes in standard notation; all ordered token pairs (988^2 in thorough) check last-wins on overlaps; spaces at every offset; empty input.",
  note="Trusts M-notation. Lists longer than three tokens are not enumerated.",
  ref="4/C05"),
 "C06": dict(
  technique="bounded-exhaustive enumeration of range shapes (every 3-state pattern along every row of the chart, every pattern inside one rank pair, whole-chart diagonals, weight set) through the real formatter and parser; every constructible token value round-tripped",
  text="For each enumerated range the real to_string() output is parsed back by the real parser and must give the same combos with bit-identical weights; each of the 2,314 well-formed token values x 12 weights must round-trip.",
  note="Ranges are structured shapes (rows, inside-rank-pair, diagonals), not all 2^1326 subsets; weights from a 12-value set including 0, subnormal and 0.99999994.",
  ref="4/C06+C17"),
 "C09": dict(
  technique="bounded-exhaustive string enumeration (all strings <= 4/5 symbols over notation+multi-byte alphabets; every string of the seven token shapes; 42 special code points in every position of 16 texts) through every real parser and every follow-up use of the parsed value, under catch_unwind; over-long inputs each in a child process on a 2 MiB stack",
  text="Every string of the bounded families is parsed as rank, suit, card, card pair, token and range; every value obtained is formatted, expanded, split into rank pairs and leftovers and enumerated by the evaluator. The oracle is only 'returned normally'.",
  note="All strings over Unicode is infinite: the claim is for the stated alphabets and lengths, plus all 146,523 shape strings.",
  ref="4/C09"),
 "C10": dict(
  technique="bounded-exhaustive string enumeration as C09 plus the weight grammar enumerated to four decimals and all 52^2 card-pair texts; every parsed value and every showdown built from parsed ranges inspected",
  text="Every combo of every value the parsers return for the enumerated strings must consist of two different cards and carry a weight in [0,1]; showdowns enumerated from lists of parsed overlapping ranges must hold 5+2n different cards and a probability in [0,1].",
  note="Same string bounds as C09; weight literals complete to four decimals plus 63 long literals.",
  ref="4/C10"),
 "C11": dict(
  technique="exhaustive enumeration of the symmetry group (all 24 suit permutations x all player orders) over a closed family of configurations, real evaluator drained each time, integer tallies compared",
  text="For every configuration of the family the real evaluator is drained under each of the 24 suit relabellings and each player order; per-player counts of outright wins and k-way ties, showdown count and weight sum must be equal / permuted; flags must match winner_len in every showdown.",
  note="Range lists are three fixed suit-asymmetric overlapping lists; flops 220 (quick) or all 22,100 (thorough).",
  ref="4/C11"),
 "C12": dict(
  technique="exhaustive enumeration of every absent/weight-a/weight-b pattern inside every rank pair (3^6, 3^4, 3^12) in three backgrounds on the real rank_pairs()/orphan_card_pairs() against a reference split, under every order of first calls on a fresh object",
  text="For every rank pair every pattern over its combos is built as a real HandRange alone, inside the complementary full range, and beside the same pattern on the neighbouring rank pair of the other kind; both views are compared with the statement's definition and must partition the range.",
  note="Trusts M-split. Quick uses 2^12 for most offsuit pairs; thorough 3^12 for all 78.",
  ref="4/C12"),
 "C15": dict(
  technique="schedule enumeration: own DFS over all call-granularity interleavings of up to four live evaluators with iterated preemption bound; every assignment of calls to two real OS threads (thread hand-offs); shuttle exhaustive DFS over spawned threads, and - when a change adds std sync primitives / thread_local! - an instrumented copy of the crate explored with an own preemption-bounded DFS scheduler; all first-use orders in fresh processes; compile-time Send+Sync probe",
  text="Every interleaving of the actors' API calls on one thread (unbounded for the two- and four-actor groups, preemption-bounded for three in quick) and every shuttle schedule of threads yielding before each call must give each evaluator the sequence it gives alone; every order of first use in a fresh process must give the same solo sequences, equal to what M-deals derives from the actor's own inputs; the public types must be Send + Sync.",
  note="Preemption inside one API call is not explored (no sync primitive to intercept; premise 'no shared mutable state in src/' audited each run and recorded, never a verdict). A free-running 16-thread pass is sampling and labelled so.",
  ref="4/C15", engine="vcheck+sched"),
 "C16": dict(
  technique="exhaustive enumeration of the real splitter for every n up to 16,384/131,072, replay of every scope list (n<=64/512) through the real iterator, and exhaustive enumeration of a code-bound transcription over all 1,065,353,216 f32 fractions",
  text="calculate_scopes (compiled from the example's own file) is run for every worker count up to the bound and checked for count, endpoints, contiguity, monotonicity and validity; each list is replayed through FlopExhaustiveEvaluator::scope against M-deals; the cut-point function, after agreeing with the code on every enumerated (n,i), is checked on every f32 in (0,1], which covers every n <= 2^24.",
  note="The all-fractions extension is used only while the transcription agrees with the code on every enumerated pair; otherwise it is reported as not bound and the verdict rests on the direct enumeration.",
  ref="4/C16"),
 "C17": dict(
  technique="bounded-exhaustive enumeration of range shapes through the real formatter against a reference canonical form, plus explicit-state search over insertion histories (all sequences <= 3/4 over 16 symbols, three construction routes) checking that text is a function of contents",
  text="For every enumerated range the real text must be exactly the canonical token list (maximal runs, rows in order) followed by the leftover set; every construction history reaching the same contents must print the identical string and compare equal.",
  note="Leftover pocket combos may be printed twice (pinned by the repository's own test); the leftover section is compared as a set.",
  ref="4/C06+C17"),
 "C13": dict(
  technique="complete enumeration of the finite domains (52 cards, 13 ranks, 4 suits, all 1- and 2-char ASCII strings, all Unicode scalars, all range endpoint pairs) on the real conversions, every route to the order, twelve format specifications, every consumption protocol of the range iterators",
  text="Every value of every finite domain named by the property is run through the real conversion functions and compared with tables written from the property text.",
  note="Trusts the harness tables (rank/suit order and characters) transcribed from the property statement.",
  ref="4/C13"),
 "C14": dict(
  technique="complete enumeration of all 52x51 ordered card pairs on the real CardPair/HandRange code; every pair the library hands out; every consumption protocol of RankPair::into_iter",
  text="All ordered pairs of distinct cards: equality, hashes under two hashers, element order, text round trip, and a range built from both orders of every combo.",
  note="Card order is taken from Card's Ord (tied to the stated order by C13).",
  ref="4/C14"),
}

PENDING_REASON = "check under construction in this round; not claimed until it runs clean on the tree"

def main():
    checks = []
    for pid in ALL:
        if pid not in CLAIMED:
            continue
        c = CLAIMED[pid]
        checks.append({
            "property_id": pid,
            "quick_cmd": "./check %s quick" % pid,
            "thorough_cmd": "./check %s thorough" % pid,
            "evidence_file": "/verif/evidence/%s.json" % pid,
            "replay_cmd_template": "./check %s --replay {path}" % pid,
            "engine": c.get("engine", "vcheck"),
            "level_claimed": {"category": "model_checking", "text": c["text"], "design_ref": "DESIGN.md section " + c["ref"]},
            "level_note": c["note"],
            "technique": c["technique"],
        })
    m = {
        "version": 1,
        "setup_cmd": "./setup.sh",
        "hooks": {
            "guard": "espada_verif",
            "enable": "none needed: every observation point is public API; the cfg espada_verif guards nothing",
            "baseline_off_cmd": "cd /repo && cargo test --workspace --no-fail-fast --offline",
            "source_commits": [],
            "add_only": True,
        },
        "engines": [
            {"name": "vcheck", "path": "/verif/harness/vcheck", "serves_properties": [p for p in ALL if p in CLAIMED],
             "kind_free_text": "bounded-exhaustive enumeration / explicit-state exploration of the real espada code against in-language reference models (vlib)"},
            {"name": "drain", "path": "/verif/harness/drain", "serves_properties": ["C08"], "kind_free_text": "child process draining one configuration on a 2 MiB thread; built with the stock dev and release profiles"},
            {"name": "sched", "path": "/verif/harness/sched", "serves_properties": ["C15"], "kind_free_text": "shuttle 0.9.3 exhaustive DFS scheduler over real spawned threads"},
            {"name": "sendsync", "path": "/verif/harness/sendsync", "serves_properties": ["C15"], "kind_free_text": "compile-time Send + Sync probe"},
        ],
        "checks": checks,
        "notes": "All checks rebuild espada from /repo's working tree through a cargo path dependency. Exit 2 = machinery failure, never a verdict.",
        "not_applicable": [{"property_id": p, "reason": PENDING_REASON} for p in ALL if p not in CLAIMED],
    }
    json.dump(m, open(os.path.join(ROOT, "MANIFEST.json"), "w"), indent=1)
    print("wrote MANIFEST.json with", len(checks), "checks")

if __name__ == "__main__":
    main()
